"""E1/E2: run jobs (program x configurations) through the real ngo.optimize, trace every stage,
evaluate the oracles on every execution.  Runs inside pool workers."""

from __future__ import annotations

import os
import signal
import sys
import traceback
from copy import deepcopy
from typing import Any, Optional

from clingo.ast import parse_string

from vt import oracle
from vt.common import canonical, flags, h, has_show, parse, prg_text, vocabulary

CPU_LIMIT = 120  # seconds of CPU time per optimize call
ITER_CAP = 30

PASS_STAGES = {
    "cleanup",
    "unused",
    "duplication",
    "symmetry",
    "minmax_chains",
    "sum_chains",
    "math",
    "inline",
    "projection",
}


class Diverged(BaseException):
    """the outer fixpoint loop revisited an earlier state (lasso) or exceeded ITER_CAP"""


class CpuTimeout(BaseException):
    """CPU time horizon exceeded"""


def _on_alarm(signum, frame):  # noqa
    raise CpuTimeout()


class Tracer:
    """observer of the NGO_VERIF hook"""

    def __init__(self) -> None:
        self.stages: list[tuple[str, str]] = []  # (stage, program text)
        self.iter_states: list[Any] = []
        self.iterations = 0

    def __call__(self, stage: str, prg: list) -> None:
        self.stages.append((stage, prg_text(prg)))
        if stage == "iter_end":
            self.iterations += 1
            # lasso: equal (AST ==, the loop's own comparison) to a state before the predecessor
            for old in self.iter_states[:-1]:
                if old == prg:
                    raise Diverged(f"lasso after {self.iterations} iterations")
            if self.iterations > ITER_CAP:
                raise Diverged(f"more than {ITER_CAP} iterations")
            self.iter_states.append(deepcopy(prg))
        elif stage == "preprocess":
            self.iter_states.append(deepcopy(prg))


def _ngo():
    import ngo  # pylint: disable=import-outside-toplevel
    import ngo.api  # pylint: disable=import-outside-toplevel

    return ngo


def to_preds(spec, prg):
    ngo = _ngo()
    if spec == "auto_in":
        return ngo.auto_detect_input(prg)
    if spec == "auto_out":
        return ngo.auto_detect_output(prg)
    return [ngo.Predicate(n, a) for n, a in spec]


def crash_site(exc: BaseException) -> str:
    tb = traceback.extract_tb(exc.__traceback__)
    site = "?"
    for fr in tb:
        if "/ngo/" in fr.filename.replace("\\", "/"):
            site = f"{os.path.basename(fr.filename)}:{fr.name}"
    return f"{type(exc).__name__}@{site}"


def run_optimize(prog: str, inp, out, traits, trace: bool = True) -> dict:
    """one execution of the real code. returns dict(status, result_text, result, stages, error, ...)"""
    ngo = _ngo()
    from ngo.dependency import DomainPredicates  # pylint: disable=import-outside-toplevel

    try:
        DomainPredicates._predicate.cache_clear()  # memory only; keyed by instance
    except AttributeError:
        pass
    prg = parse(prog)
    before = [str(s) for s in prg]
    ids = [id(s) for s in prg]
    inp_p = to_preds("auto_in" if inp == "auto" else inp, prg)
    out_p = to_preds("auto_out" if out == "auto" else out, prg)
    tracer = Tracer()
    if trace:
        ok = ngo.api._verif_install(tracer)
        assert ok, "NGO_VERIF hook not active"
    rec: dict = {"status": "ok", "stages": tracer.stages, "iterations": 0}
    signal.signal(signal.SIGVTALRM, _on_alarm)
    signal.setitimer(signal.ITIMER_VIRTUAL, CPU_LIMIT)
    try:
        res = ngo.optimize(prg, inp_p, out_p, **flags(traits))
        signal.setitimer(signal.ITIMER_VIRTUAL, 0)
        rec["result"] = res
        rec["result_text"] = prg_text(res)
        if not isinstance(res, list):
            rec["status"] = "crash"
            rec["error"] = f"ReturnType@{type(res).__name__}"
    except Diverged as exc:
        signal.setitimer(signal.ITIMER_VIRTUAL, 0)
        rec["status"] = "diverged"
        rec["error"] = str(exc)
    except CpuTimeout:
        rec["status"] = "timeout"
        rec["error"] = f"cpu>{CPU_LIMIT}s"
    except BaseException as exc:  # pylint: disable=broad-except
        signal.setitimer(signal.ITIMER_VIRTUAL, 0)
        if isinstance(exc, (KeyboardInterrupt,)):
            raise
        rec["status"] = "crash"
        rec["error"] = crash_site(exc)
        rec["traceback"] = "".join(traceback.format_exception(type(exc), exc, exc.__traceback__)[-6:])
    finally:
        signal.setitimer(signal.ITIMER_VIRTUAL, 0)
        if trace:
            ngo.api._verif_install(None)
    rec["iterations"] = tracer.iterations
    after = [str(s) for s in prg]
    rec["mutated"] = not (before == after and ids == [id(s) for s in prg])
    rec["auto_in"] = sorted((p.name, p.arity) for p in inp_p) if inp == "auto" else None
    rec["auto_out"] = sorted((p.name, p.arity) for p in out_p) if out == "auto" else None
    return rec


def fired_stages(stages: list[tuple[str, str]]) -> list[str]:
    fired = []
    prev = None
    for stage, text in stages:
        if prev is not None and stage in PASS_STAGES and text != prev and stage not in fired:
            fired.append(stage)
        prev = text
    return fired


def oracle_params(orc: dict, src_prg, inp, out, auto_out) -> tuple[str, Optional[frozenset]]:
    """(mode, preds) for oracle.compare"""
    mode = orc["mode"]
    if mode == "voc":
        return "preds", frozenset(vocabulary(src_prg))
    if mode == "out":
        if out == "auto":
            if not has_show(src_prg):
                return "sat", None
            from clingo.ast import ASTType  # pylint: disable=import-outside-toplevel

            sigs = frozenset((s.name, s.arity) for s in src_prg if s.ast_type == ASTType.ShowSignature)
            return "shown", sigs
        return "preds", frozenset(tuple(p) for p in out)
    if mode == "inout":
        o = auto_out if out == "auto" else out
        i = inp if inp != "auto" else []
        return "preds", frozenset(tuple(p) for p in o) | frozenset(tuple(p) for p in i)
    if mode == "preds":
        return "preds", frozenset(tuple(p) for p in orc["preds"])
    raise ValueError(mode)


def validity(result, result_text, universe, consts, max_facts) -> Optional[dict]:
    """C04: AST loads and grounds, text loads and grounds, printing is a fixpoint of parse, same AS"""
    try:
        via_ast = oracle.solve(asts=result, universe=universe, consts=consts, max_facts=max_facts)
    except RuntimeError as exc:
        return {"kind": "invalid_ast", "detail": str(exc)[:300]}
    try:
        via_text = oracle.solve(text=result_text, universe=universe, consts=consts, max_facts=max_facts)
    except RuntimeError as exc:
        return {"kind": "invalid_text", "detail": str(exc)[:300]}
    for stm in result:
        back: list = []
        try:
            parse_string(str(stm), back.append)
        except RuntimeError as exc:
            return {"kind": "unparsable_stm", "detail": f"{stm} :: {exc}"[:300]}
        back = [b for b in back if str(b) != "#program base."] or back
        if len(back) != 1 and str(stm) != "#program base.":
            return {"kind": "roundtrip", "detail": f"{stm} parses to {len(back)} statements"}
        if back and str(back[-1]) != str(stm):
            return {"kind": "roundtrip", "detail": f"{stm} != {back[-1]}"}
    for inst, models in via_ast.by_instance.items():
        a = oracle.project(models, "shown", None, True, True)
        b = oracle.project(via_text.by_instance.get(inst, []), "shown", None, True, True)
        a2 = oracle.Counter((frozenset(x[2] for x in m[0]), m[2]) for m in models)
        b2 = oracle.Counter((frozenset(x[2] for x in m[0]), m[2]) for m in via_text.by_instance.get(inst, []))
        if a != b or a2 != b2:
            return {"kind": "ast_vs_text", "detail": f"instance {sorted(inst)}"}
    return None


def interface_check(src_prg, result, cfg, rec) -> Optional[str]:
    """C07 structural oracle"""
    from clingo.ast import ASTType  # pylint: disable=import-outside-toplevel

    inp = cfg["inp"] if cfg["inp"] != "auto" else (rec.get("auto_in") or [])
    out = cfg["out"] if cfg["out"] != "auto" else (rec.get("auto_out") or [])
    inset = {tuple(p) for p in inp}
    declared = inset | {tuple(p) for p in out}

    def heads(prg) -> set:
        hs: set = set()
        for s in prg:
            if s.ast_type == ASTType.Rule:
                hs |= vocabulary([s.head])
        return hs

    src_heads, res_heads = heads(src_prg), heads(result)
    new_input_heads = (res_heads & inset) - src_heads
    if new_input_heads:
        return f"input predicate(s) {sorted(new_input_heads)} got a defining rule"
    src_voc = vocabulary(src_prg)
    captured = (res_heads & src_voc) - src_heads
    if captured:
        return f"predicate(s) {sorted(captured)} that the source uses but does not define got a defining rule"
    clash = (res_heads - src_voc) & declared
    if clash:
        return f"invented head predicate(s) {sorted(clash)} coincide with declared input/output predicates"
    keep = (ASTType.Rule, ASTType.Minimize)

    def nonrules(prg):
        out_ = [str(s) for s in prg if s.ast_type not in keep]
        while out_ and out_[0] == "#program base.":
            out_ = out_[1:]
        return out_

    a, b = nonrules(src_prg), nonrules(result)
    if a != b:
        return f"non-rule statements changed: {a} -> {b}"
    return None


def rewrite_signature(prev_text: str, cur_text: str) -> tuple[str, str]:
    prev = prev_text.split("\n")
    cur = cur_text.split("\n")
    removed = [s for s in prev if s not in cur]
    added = [s for s in cur if s not in prev]
    canon = canonical(["- " + s for s in removed] + ["+ " + s for s in added])
    return h(canon)[:10], canon


def attribute(job, cfg, src, excluded, mode, preds, orc, stages) -> dict:
    """first traced stage whose program is not equivalent to the source under the same oracle"""
    prev_text = job["prog"]
    for idx, (stage, text) in enumerate(stages):
        if idx > 0 and text == stages[idx - 1][1]:
            continue
        bad = None
        try:
            res = oracle.solve(text=text, universe=job["universe"], consts=job["consts"], max_facts=job["max_facts"])
            bad = oracle.compare(src, res.by_instance, excluded, mode, preds, orc["costs"], orc["multiset"])
        except RuntimeError:
            bad = ["invalid"]
        except oracle.CapHit:
            bad = None
        if bad:
            before = stages[idx - 1][1] if idx > 0 else "\n".join(str(s) for s in parse(job["prog"]))
            sig, canon = rewrite_signature(before, text)
            return {"culprit": stage, "stage_index": idx, "sig": sig, "canon": canon, "before": before, "after": text}
        prev_text = text
    return {"culprit": "unknown", "stage_index": -1, "sig": "", "canon": "", "before": prev_text, "after": ""}


def describe_instance(inst, universe) -> list[str]:
    return [universe[k] for k in sorted(inst)]


def run_job(job: dict) -> dict:
    """execute one job = one source program with all its configurations"""
    sys.setrecursionlimit(10000)
    out: dict = {"id": job["id"], "family": job.get("family", ""), "configs": [], "rejected": None, "states": [],
                 "transitions": [], "pairs": 0, "instances": 0, "excluded": 0, "outcomes": []}
    universe = job["universe"]
    consts = job["consts"]
    max_facts = job["max_facts"]
    checks = job.get("checks", ["semantic"])
    need_source = "semantic" in checks or "valid" in checks
    src = None
    excluded: set = set()
    try:
        src_prg = parse(job["prog"])
    except RuntimeError as exc:
        out["rejected"] = f"parse: {exc}"[:200]
        return out
    if need_source:
        try:
            src, excluded = oracle.solve_source(job["prog"], universe, consts, max_facts)
        except RuntimeError as exc:
            out["rejected"] = f"ground: {exc}"[:200]
            return out
        except oracle.CapHit:
            out["rejected"] = "model cap"
            out["cap"] = True
            return out
        out["instances"] = len(src) - len(excluded)
        out["excluded"] = len(excluded)
        out["pairs"] = sum(len(m) for i, m in src.items() if i not in excluded)
    states: set = set()
    transitions: set = set()
    outcomes: set = set()
    for cfg in job["configs"]:
        rec = run_optimize(job["prog"], cfg["inp"], cfg["out"], cfg["traits"])
        cres: dict = {"traits": cfg["traits"], "inp": cfg["inp"], "out": cfg["out"], "status": rec["status"],
                      "iterations": rec["iterations"], "fired": fired_stages(rec["stages"]), "violations": []}
        prevh = h(job["prog"])
        states.add(prevh)
        for stage, text in rec["stages"]:
            cur = h(text)
            states.add(cur)
            transitions.add((prevh, stage, cur))
            prevh = cur
        if rec["status"] != "ok":
            if "terminate" in checks or "semantic" in checks or "valid" in checks:
                v = {"kind": rec["status"], "error": rec["error"], "culprit": _last_stage(rec["stages"]),
                     "traceback": rec.get("traceback", "")}
                cres["violations"].append(v)
            out["configs"].append(cres)
            continue
        cres["result_text"] = rec["result_text"]
        if rec["result_text"] != prg_text(src_prg) and not cres["fired"]:
            cres["fired"].append("normalize")
        if rec["mutated"] and "immut" in checks:
            cres["violations"].append({"kind": "mutated_argument"})
        if "interface" in checks:
            msg = interface_check(src_prg, rec["result"], cfg, rec)
            if msg:
                sig, canon = rewrite_signature(prg_text(src_prg), rec["result_text"])
                cres["violations"].append({"kind": "interface", "detail": msg, "culprit": "interface", "sig": sig,
                                           "before": prg_text(src_prg), "after": rec["result_text"]})
        if "valid" in checks:
            v = validity(rec["result"], rec["result_text"], universe, consts, max_facts)
            if v is not None:
                v["culprit"] = _first_invalid_stage(job, rec["stages"], v)
                if v["culprit"] == "unknown" and v["kind"] == "invalid_ast":
                    v["culprit"] = _first_invalid_ast_stage(job, cfg, v)
                cres["violations"].append(v)
        if "semantic" in checks:
            orc = cfg["oracle"]
            mode, preds = oracle_params(orc, src_prg, cfg["inp"], cfg["out"], rec["auto_out"])
            try:
                res = oracle.solve(text=rec["result_text"], universe=universe, consts=consts, max_facts=max_facts)
                bad = oracle.compare(src, res.by_instance, excluded, mode, preds, orc["costs"], orc["multiset"])
                if bad:
                    inst = bad[0]
                    att = attribute(job, cfg, src, excluded, mode, preds, orc, rec["stages"])
                    v = {"kind": "semantic", "bad_instances": [sorted(i) for i in bad[:64]], "n_bad": len(bad),
                         "instance": describe_instance(inst, universe),
                         "expected": oracle.render(oracle.project(src[inst], mode, preds, orc["costs"], orc["multiset"]))
                         if mode != "sat" else [["SAT" if src[inst] else "UNSAT"]],
                         "obtained": oracle.render(
                             oracle.project(res.by_instance.get(inst, []), mode, preds, orc["costs"], orc["multiset"]))
                         if mode != "sat" else [["SAT" if res.by_instance.get(inst) else "UNSAT"]],
                         "mode": mode, "preds": sorted(preds) if preds else None}
                    # for instance-class matchers: which auxiliary predicates have atoms in the result per bad instance
                    aux = []
                    for bi in bad:
                        names = set()
                        for atoms, _, _ in res.by_instance.get(bi, []):
                            names.update(f"{a[0]}/{a[1]}" for a in atoms if a[0].startswith("__"))
                        aux.append([describe_instance(bi, universe), sorted(names)])
                    v["bad_aux"] = aux
                    v.update(att)
                    cres["violations"].append(v)
                if "domains" in checks:
                    from vt import domains  # pylint: disable=import-outside-toplevel

                    voc = vocabulary(src_prg)
                    for inst in sorted(res.by_instance, key=lambda i: (len(i), sorted(i))):
                        if inst in excluded:
                            continue
                        msg = domains.check(res.by_instance[inst], voc, domains.emitted_domains(rec["result_text"]))
                        if msg:
                            prev = rec["stages"][-2][1] if len(rec["stages"]) > 1 else job["prog"]
                            sig, canon = rewrite_signature("\n".join(str(s) for s in parse(job["prog"])), rec["result_text"])
                            cres["violations"].append({"kind": "domain", "detail": msg, "culprit": "domain",
                                                       "instance": describe_instance(inst, universe), "sig": sig,
                                                       "before": "\n".join(str(s) for s in parse(job["prog"])),
                                                       "after": rec["result_text"]})
                            break
                # outcome signature: how the projected collections vary over instances
                sig = h(repr(sorted((sorted(i), oracle.render(oracle.project(m, mode if mode != "sat" else "shown",
                                                                              preds, orc["costs"], orc["multiset"])))
                                    for i, m in res.by_instance.items())))
                outcomes.add(sig)
                cres["varies"] = len({repr(oracle.render(oracle.project(m, mode if mode != "sat" else "shown", preds,
                                                                        orc["costs"], orc["multiset"])))
                                      for m in src.values()}) > 1
            except RuntimeError as exc:
                if "valid" not in checks:
                    vv = {"kind": "invalid_text", "detail": str(exc)[:300]}
                    vv["culprit"] = _first_invalid_stage(job, rec["stages"], vv)
                    cres["violations"].append(vv)
            except oracle.CapHit:
                cres["cap"] = True
        out["configs"].append(cres)
    out["states"] = sorted(states)
    out["transitions"] = len(transitions)
    out["outcomes"] = sorted(outcomes)
    return out


def _last_stage(stages) -> str:
    """the stage that was running when the exception happened = the one after the last recorded"""
    order = ["preprocess", "cleanup", "unused", "duplication", "symmetry", "minmax_chains", "sum_chains", "math",
             "inline", "projection", "iter_end", "postprocess"]
    if not stages:
        return "preprocess"
    return "after:" + stages[-1][0]


def _first_invalid_ast_stage(job, cfg, v) -> str:
    """second run of the same execution: load the AST objects of every stage into clingo, name the first that fails"""
    ngo = _ngo()
    found: list = []
    prev = ["\n".join(str(s) for s in parse(job["prog"]))]

    def observer(stage: str, prg: list) -> None:
        text = prg_text(prg)
        if not found:
            try:
                oracle.solve(asts=prg, universe=job["universe"], consts=job["consts"], max_facts=0)
            except RuntimeError:
                found.append(stage)
                v["before"], v["after"] = prev[0], text
                v["sig"], v["canon"] = rewrite_signature(prev[0], text)
            except oracle.CapHit:
                pass
        prev[0] = text

    prg = parse(job["prog"])
    inp_p = to_preds("auto_in" if cfg["inp"] == "auto" else cfg["inp"], prg)
    out_p = to_preds("auto_out" if cfg["out"] == "auto" else cfg["out"], prg)
    ngo.api._verif_install(observer)
    try:
        ngo.optimize(prg, inp_p, out_p, **flags(cfg["traits"]))
    except BaseException:  # pylint: disable=broad-except
        pass
    finally:
        ngo.api._verif_install(None)
    return found[0] if found else "unknown"


def _first_invalid_stage(job, stages, v=None) -> str:
    prev = "\n".join(str(s) for s in parse(job["prog"]))
    for stage, text in stages:
        try:
            oracle.solve(text=text, universe=job["universe"], consts=job["consts"], max_facts=0)
        except RuntimeError:
            if v is not None:
                v["before"], v["after"] = prev, text
                v["sig"], v["canon"] = rewrite_signature(prev, text)
            return stage
        except oracle.CapHit:
            pass
        prev = text
    return "unknown"
