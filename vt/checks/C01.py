"""C01: same answer sets on the output predicates (composition of passes, all 512 trait subsets, declarations)"""

from __future__ import annotations

import json
import os

from clingo.ast import ASTType

from vt.checks import generic
from vt.common import DEFAULT, TRAITS, all_subsets, parse, vocabulary
from vt.families import compose
from vt.families.base import config, job, orc

PROP = "C01"
OUT_ORC = orc("out", costs=False, multiset=False)


def last_heads(prog: str, inp) -> list:
    """output declaration for family programs: head predicates of the last rule (+ #show signatures)"""
    try:
        prg = parse(prog)
    except RuntimeError:
        return []
    out: set = set()
    rules = [s for s in prg if s.ast_type == ASTType.Rule]
    inset = {tuple(p) for p in inp} if inp != "auto" else set()
    if rules:
        out |= {p for p in vocabulary([rules[-1].head]) if p not in inset}
    for s in prg:
        if s.ast_type == ASTType.ShowSignature and s.name:
            out.add((s.name, s.arity))
    return [list(p) for p in sorted(out)]


def slice_keep(tier: str):
    quick = tier == "quick"
    sub9 = {"b(X,Y)", "b(Y,X)", "b(X,_)", "d(X)", "e(Y)", "not d(X)", "not f(X)", "not b(X,Y)", "c(X)"}

    def keep(j: dict) -> bool:
        if not quick:
            return True
        fam, m = j["family"].split("/")[0].split("~")[0], j["meta"]
        if m.get("owner_only"):
            return False  # shapes that belong to the owning check alone
        if "~" in j["family"]:
            return True  # variants are only built from programs of the slice
        if j["family"].split("~")[0] in ("C10/scope", "C10/nonbinding", "C11/eqagg", "C12/signed"):
            return True  # small sub-families
        if fam == "C05":
            return m["kind"] in ("arith", "eq", "pool", "chain", "pair", "count")
        if fam == "C08":
            return (m["use"] in ("body", "loop") and set(m["lits"]) <= sub9 and j["family"] == "C08"
                    and m["def"] in ("plain", "two_diff", "chain", "perm", "neg", "choice_cond", "disj", "bounds",
                                     "dneg_loop", "pos_loop", "fact_and_rule"))
        if fam == "C09":
            if m["cons"].startswith(("dneg_head", "classneg_")):
                return False  # owner-check shapes (wave 7), not part of the composite slice
            return m["prod"] == "choice" and m["mid"] in ("none", "copy_swap", "copy_rep", "copy_chain", "copy_proj",
                                                          "once_var", "choice_copy", "copy_three")
        if fam == "C10":
            return (m.get("ren") == "id" and m.get("extra") == ["none", "none"]
                    and m.get("set") in ("pq", "p_notq", "q_cond", "assign", "p_agg", "qq_neq", "interval_join", "rec"))
        if fam == "C11":
            return (m["p"] == "choice" and m["extra"] in ("none", "cond_pos_A")
                    and m["ctx"] in ("constraint", "ruleG", "agg", "weak", "weakprio"))
        if fam == "C12":
            return (m["q"] in ("choice", "choice_base") and m["fun"] == "max"
                    and m["user"] in ("none", "sum", "min", "min_guard", "weak_realguard", "min_second", "body_use", "min_twin", "weak_twin"))
        if fam == "C13":
            return m["extra"] == "none" and m["def"] in ("ub1", "eq1", "sum1", "cond_neg", "nobody", "all_global", "ub2")
        if fam == "C15":
            return (m.get("helper", "plain") in ("plain", "two_elems", "extra_neg", "bound", "nogrp", "tuple2")
                    and m["fun"] in ("sum", "count", "max"))
        if fam == "C14":
            # every third program (by job id) of the two-literal rX/pq programs: math is the slowest pass
            # (negated aggregates always, also in the weak-constraint context)
            if any(l.count(";") >= 2 for l in m["lits"]):
                return False  # three-part composite literals (wave 7) stay in the owner check
            neg = any(l.startswith("not ") and "#" in l and l.count("<") >= 2 for l in m["lits"])  # two-sided
            return (m["binders"] == "pq" and len(m["lits"]) == 2
                    and ((m["ctx"] == "rX" and (neg or int(j["id"][:6], 16) % 3 == 0)) or (m["ctx"] == "w" and neg)))
        if fam == "C16":
            if any("-|" in l or "-(" in l for l in m["lits"]):
                return False  # nested unary operations (wave 7) stay in the owner check
            return m["head"] == "h2b" and len(m["lits"]) == 3
        return True

    return keep


def jobs(tier: str):
    quick = tier == "quick"
    subsets512 = all_subsets(TRAITS)
    if quick:
        # pairwise-interaction bound: all subsets of at most two traits, all traits but one, default, all
        subsets512 = [t for t in subsets512 if len(t) <= 2 or len(t) >= len(TRAITS) - 1] + [DEFAULT]
    few = [[], DEFAULT, TRAITS] + [[t] for t in TRAITS]
    # (a) composition corpus x all 512 trait subsets, explicit declaration; auto declaration for a few
    for name, prog, inp, out, universe, consts_menu in compose.CORPUS:
        for consts in consts_menu:
            cfgs = [config(t, inp, out, OUT_ORC) for t in subsets512]
            cfgs += [config(t, "auto", "auto", OUT_ORC) for t in (few if quick else subsets512)]
            cfgs += [config(t, inp, [], OUT_ORC) for t in few]
            yield compose.corpus_job(name, prog, inp, out, universe, consts, cfgs, "C01/corpus")

    # (b) cross-family sweep under the configurations users get
    def mk(j, c0):
        inp = c0["inp"]
        if inp != "auto":
            # C01 only quantifies over facts of input predicates: declare every predicate of the universe as input
            upreds = sorted({(f.split("(")[0], f.count(",") + 1 if "(" in f else 0) for f in j["universe"]})
            inp = [list(p) for p in sorted({tuple(p) for p in inp} | set(upreds))]
        fam = j["family"].split("/")[0].split("~")[0]
        out = last_heads(j["prog"], inp)
        tr = [TRAITS] if quick else [DEFAULT, TRAITS]
        cfgs = [config(t, inp, out, OUT_ORC) for t in tr]
        if not quick and "~" not in j["family"]:
            cfgs += [config(t, "auto", "auto", OUT_ORC) for t in tr]
            cfgs += [config(t, inp, [], OUT_ORC) for t in tr]
        return cfgs

    fams = ["C05", "C08", "C09", "C10", "C11", "C12", "C13", "C14", "C15", "C16"]
    yield from compose.remap(compose.family_jobs(fams, "quick", variants=12 if quick else 60), "C01", mk, keep=slice_keep("quick"))
    # (c) frozen inputs of the repository's tests: universe derived mechanically
    yield from corpus_tests_jobs(tier)


def corpus_tests_jobs(tier: str):
    from vt.families.C03 import corpus  # pylint: disable=import-outside-toplevel

    for ent in corpus():
        try:
            prg = parse(ent["prog"])
        except RuntimeError:
            continue
        universe = derive_universe(prg)
        if universe is None:
            continue
        cfgs = [config(t, "auto", "auto", OUT_ORC) for t in (DEFAULT, TRAITS)]
        yield job("C01/tests", ent["prog"], universe, cfgs, max_facts=2 if tier == "quick" else 3,
                  meta={"src": ent["src"]})


def derive_universe(prg) -> list | None:
    """every open predicate (occurs but never in a head) x constants of the program u {1,2}; None if too large"""
    import re  # pylint: disable=import-outside-toplevel
    from itertools import product  # pylint: disable=import-outside-toplevel

    voc = vocabulary(prg)
    heads: set = set()
    for s in prg:
        if s.ast_type == ASTType.Rule:
            heads |= vocabulary([s.head])
    open_preds = sorted(p for p in voc - heads if p[0])
    consts = {"1", "2"}
    text = "\n".join(str(s) for s in prg)
    consts |= set(re.findall(r"(?<![A-Za-z_0-9])(\d)(?![0-9])", text))
    consts = sorted(consts)[:3]
    universe = []
    for name, arity in open_preds:
        if arity > 3:
            return None
        for tup in product(consts, repeat=arity):
            universe.append(f"{name}({','.join(tup)})" if arity else name)
    if len(universe) > 40:
        return None
    return universe


def main(tier: str, seed: int) -> int:
    rule = ("(a) composition corpus x trait subsets (quick: all subsets of <= 2 traits, all-but-one, default, all = 57; thorough: all 512) x declarations (explicit, auto, empty OUT) x #const "
            "overrides; (b) programs of the families C05,C08-C16 (sub-bounds in quick) under default/all with OUT = heads "
            "of the last rule; (c) frozen test-suite inputs under default/all with auto declarations and all instances "
            "of <= 2 (3) facts; all instances, all answer sets; set equality on OUT / shown atoms, satisfiability. "
            "non-trivial = some pass changed the program and the outcome varies over instances")
    bounds = {"corpus": len(compose.CORPUS), "trait_subsets": 57 if tier == "quick" else 512, "families": 10}
    return generic.family_main(PROP, tier, seed, jobs(tier), rule, bounds)


def replay(path: str) -> int:
    return generic.replay(PROP, path)
