"""C13: sum_chains"""

from vt.checks import generic
from vt.families import C13 as fam

PROP = "C13"


def main(tier: str, seed: int) -> int:
    rule = ("every program AT-MOST-ONE-DEFINITION x EXTRA x USE, optimize(sum_chains only), all subsets of the fact "
            "universe (two groups with different value domains, negative and repeated values), all answer sets; "
            "multiset equality on voc(P) with costs. non-trivial = sum_chains changed the program and the outcome varies")
    bounds = {"defs": len(fam.DEFS), "extras": len(fam.EXTRAS), "uses": len(fam.USES),
              "universe": fam.universe("ub1", "none", tier)}
    return generic.family_main(PROP, tier, seed, generic.with_variants(fam.jobs(tier), tier), rule, dict(bounds, variants=True))


def replay(path: str) -> int:
    return generic.replay(PROP, path)
