"""C11: symmetry"""

from vt.checks import generic
from vt.families import C11 as fam

PROP = "C11"


def main(tier: str, seed: int) -> int:
    rule = ("every program GROUP (k copies of one predicate with pairwise comparisons) x EXTRA literal x CONTEXT x "
            "definition of the predicate, optimize(symmetry only), all subsets of the fact universe, all answer sets; "
            "multiset equality on voc(P) with costs. non-trivial = symmetry changed the program and the outcome varies")
    bounds = {"groups": len(list(fam.groups(tier))), "extras": len(fam.EXTRAS), "contexts": len(fam.CONTEXTS),
              "definitions": len(fam.PDEFS)}
    return generic.family_main(PROP, tier, seed, generic.with_variants(fam.jobs(tier), tier), rule, dict(bounds, variants=True))


def replay(path: str) -> int:
    return generic.replay(PROP, path)
