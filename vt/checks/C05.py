"""C05: --enable none preserves everything"""

from vt.checks import generic
from vt.families import C05 as fam

PROP = "C05"


def main(tier: str, seed: int) -> int:
    rule = ("every statement of the normalisation grammar (old-style aggregates x bounds x elements x sign, #count, "
            "#inf/#sup guards x 5 functions x sign, comparison chains, pools, arithmetic in atoms/tuples/weights, "
            "X = t equalities) and pairs with a 12-statement core, optimize(all traits off), all subsets of a fact "
            "universe over input AND derived predicates, all answer sets; multiset equality on voc(P) with costs. "
            "non-trivial = the normal form differs from the input text and the outcome varies")
    bounds = {"statements": len(fam.statements(tier)), "core": len(fam.CORE)}
    return generic.family_main(PROP, tier, seed, generic.with_variants(fam.jobs(tier), tier), rule, dict(bounds, variants=True))


def replay(path: str) -> int:
    return generic.replay(PROP, path)
