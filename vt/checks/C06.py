"""C06: traits that only add auxiliary predicates keep all source atoms, one-to-one"""

from __future__ import annotations

from vt.checks import generic
from vt.checks.C01 import slice_keep
from vt.common import AUX_ONLY, all_subsets
from vt.families import compose
from vt.families.base import config, orc

PROP = "C06"
VOC = orc("voc", costs=True, multiset=True)


def jobs(tier: str):
    quick = tier == "quick"
    subsets = all_subsets(AUX_ONLY)  # 128
    for name, prog, inp, out, universe, consts_menu in compose.CORPUS:
        for consts in consts_menu[:1 if quick else None]:
            cfgs = [config(t, inp, out, VOC) for t in subsets]
            yield compose.corpus_job(name, prog, inp, out, universe, consts, cfgs, "C06/corpus")

    def mk(j, c0):
        fam = j["family"].split("/")[0].split("~")[0]
        inp = c0["inp"]
        if inp != "auto":
            upreds = sorted({(f.split("(")[0], f.count(",") + 1 if "(" in f else 0) for f in j["universe"]})
            inp = [list(p) for p in sorted({tuple(p) for p in inp} | set(upreds))]
        cfgs = [config(AUX_ONLY, inp, [], VOC)]
        if not quick and "~" not in j["family"]:
            cfgs.append(config(compose.OWNER[fam], inp, [], VOC))
            cfgs += [config([t for t in AUX_ONLY if t != drop], inp, [], VOC) for drop in AUX_ONLY]
        return cfgs

    fams = ["C08", "C10", "C11", "C12", "C13", "C14", "C16"]
    yield from compose.remap(compose.family_jobs(fams, "quick", variants=12 if quick else 60), "C06", mk, keep=slice_keep("quick"))


def main(tier: str, seed: int) -> int:
    rule = ("composition corpus x all 128 subsets of {cleanup, duplication, symmetry, minmax_chains, sum_chains, math, "
            "projection} (unused, inline off) and the family programs of C08,C10-C14,C16 under all seven (thorough: also "
            "the owning trait and all-but-one); all instances, all answer sets; MULTISET equality of the answer sets "
            "projected on the source vocabulary with costs = the projection is a bijection and no source atom changes. "
            "non-trivial = some pass changed the program and the outcome varies")
    bounds = {"subsets": 128, "corpus": len(compose.CORPUS), "families": 7}
    return generic.family_main(PROP, tier, seed, jobs(tier), rule, bounds)


def replay(path: str) -> int:
    return generic.replay(PROP, path)
