"""C17: optimize is pure: reproducible across hash seeds and histories, leaves its argument alone"""

from __future__ import annotations

import json
import multiprocessing as mp
import os
import subprocess
import sys
import time
from itertools import combinations, product

from vt import driver
from vt.common import DEFAULT, TRAITS, VERIF, all_subsets, flags, h
from vt.families import compose
from vt.families.base import config, job, orc
from vt.families.zoo import CONTEXT, UNITS, ZOO

PROP = "C17"
NOORC = orc("out", costs=False, multiset=False)


# programs in which SETS WITH SEVERAL ELEMENTS flow through every pass (several shared variables, several groups,
# several predicates to rename ...): an unsorted set reaching the output shows as an order dependence here
ORDER_CORPUS = [
    ("proj2", "p(A,B,D) :- q(A,B,C), r(A,B,D), t(E), not s(C,E).\n#show p/3."),
    ("proj3", "p(A,B,C,D) :- q(A,B,C,F), r(A,B,C,D), t(E), not s(F,E).\nk(A,B,D) :- q(A,B,C,F), r(A,B,C,D), t(E), s(F,E)."),
    ("dupl3", "h1(X,Y,Z) :- p(X,Y), q(Y,Z), r(Z,X), e(X).\nh2(X,Y,Z) :- p(X,Y), q(Y,Z), r(Z,X), not e(Y).\n"
              "h3(N) :- N = #count { X,Y,Z : p(X,Y), q(Y,Z), r(Z,X) }."),
    ("sym_groups", "{ sl(J,M,T) } :- d(J,M,T).\n:- sl(J1,M,T1), sl(J2,M,T2), J1 != J2, T1 != T2.\n"
                   ":- sl(J,M1,T), sl(J,M2,T), M1 != M2.\nbad(M) :- sl(A,M,T), sl(B,M,T), sl(C,M,T), A != B, B != C, A != C."),
    ("unused_many", "b(X,Y,Z) :- db(X,Y,Z).\nc(X,Y,Z) :- dc(X,Y,Z).\nd(X,Y,Z) :- dd(X,Y,Z).\n"
                    "r(X) :- b(X,_,_), c(_,X,_), d(_,_,X).\n#show r/1."),
    ("cleanup_many", "b(X,Y,Z) :- p(X), q(Y), r(Z), s(X,Y), t(Y,Z).\na(X,Y,Z) :- b(X,Y,Z), p(X), q(Y), r(Z), s(X,Y), t(Y,Z).\n"
                     "c :- a(X,Y,Z), b(X,Y,Z), t(Y,Z), s(X,Y)."),
    ("minmax_groups", "{ q(A,B,C,V) } :- dq(A,B,C,V).\nr(A,B,C,X) :- g(A,B,C), X = #max { V : q(A,B,C,V) }.\n"
                      "s(C,B,A,X) :- g(A,B,C), X = #min { V : q(A,B,C,V) }.\n#minimize { X@1,A,B,C : r(A,B,C,X) }."),
    ("sum_two_amo", "{ sh(D,L) : ps(D,L) } 1 :- day(D).\n{ tk(W,C) : pt(W,C) } 1 :- wk(W).\n"
                    "a(X) :- X = #sum { L,D : sh(D,L) ; C,W,t : tk(W,C) }.\n:~ sh(D,L). [L@1,D]\n:~ tk(W,C). [C@2,W]"),
    ("math_many", "{ s(Z) : ds(Z) }. { t(Z) : ds(Z) }.\na(X,Y) :- p(X), q(Y), N = #sum { Z : s(Z) }, M = #count { Z : t(Z) }, "
                  "K = #sum { Z,b : t(Z) }, N + M + K = X + Y, X < Y."),
    ("inline_two", "{ pe(V,Y) } :- dpe(V,Y).\nh(V,W,S) :- g(V), g(W), S = #sum { Y : pe(V,Y) ; Y,b : pe(W,Y) }.\n"
                   "foo(X) :- X = #sum { S,V,W : h(V,W,S) }."),
    ("auto_many", "z(X) :- a(X), b(X), c(X), d(X), e(X).\ny(X) :- f(X), g(X), not h(X).\n#show z/1. #show y/1. #show w(X) : a(X), f(X)."),
]


def corpus(tier: str) -> list[tuple[str, str]]:
    progs = [(name, prog) for name, prog, *_ in compose.CORPUS] + ORDER_CORPUS
    progs += [(f"unit{i}", CONTEXT + "\n" + u) for i, u in enumerate(UNITS) if tier != "quick" or i % 8 == 0]
    if tier != "quick":
        progs += [(f"zoo{i}", CONTEXT + "\n" + z) for i, z in enumerate(ZOO) if "#script" not in z]
    return progs


# ------------------------------------------------------------------ 1. hash-order schedules (E3)
def _sched_init():
    from vt import setsched

    setsched.install()


def _sched_base(args):
    from vt import setsched

    name, prog, traits = args
    base = setsched.run(prog, traits, "auto", "auto", {})
    return {"name": name, "prog": prog, "traits": traits, "sites": sorted(base["sites"]), "points": base["points"],
            "text": base["text"]}


def _sched_dev(args):
    from vt import setsched

    name, prog, traits, dev = args
    r = setsched.run(prog, traits, "auto", "auto", dev)
    return name, traits, dev, r["text"]


def _plain_init():
    os.environ["NGO_VERIF"] = "1"
    import logging

    logging.disable(logging.CRITICAL)


def _plain_run(args):
    """the unmodified package under the same hash seed: must equal the canonical scheduled run"""
    name, prog, traits = args
    from vt.run import run_optimize

    rec = run_optimize(prog, "auto", "auto", traits, trace=False)
    return name, traits, rec.get("result_text") if rec["status"] == "ok" else "EXCEPTION " + str(rec.get("error"))


# ------------------------------------------------------------------ 2. real interpreters under several hash seeds
def _cli(args):
    prog, traits, seedval = args
    env = dict(os.environ, PYTHONHASHSEED=str(seedval))
    env.pop("NGO_VERIF", None)
    spelled = list(traits) if traits else ["none"]
    p = subprocess.run([sys.executable, "-m", "ngo", "--enable"] + spelled, input=prog, capture_output=True, text=True,
                       env=env, timeout=900)
    return prog, tuple(traits), seedval, p.returncode, p.stdout


# ------------------------------------------------------------------ 3. histories (E4)
_MINMAX = "{ q(P,V) } :- dq(P,V).\nr(P,X) :- grp(P), X = #max { V : q(P,V) }.\n#minimize { X@1,P : r(P,X) }."
_ANON = "{ q(X,Y) } :- dq(X,Y).\nr(X) :- q(X,Y), s(X).\nt(X,Y) :- q(X,Y), not s(Y).\n#show r/1. #show t/2."
NO_UNUSED = [t for t in TRAITS if t != "unused"]

# (name, program, traits): histories mix programs AND trait selections; several entries share textually equal rules
# at different source lines or under different traits (state keyed by rule text, source line or trait would leak here)
HIST_ALPHABET = [
    ("minmax", _MINMAX.replace("\n", " "), TRAITS),
    ("sumchain", "{ sh(D,L) : ps(D,L) } 1 :- day(D). a(X) :- X = #sum { L,D : sh(D,L) }.", TRAITS),
    ("symmetry", "{ p(X,Y) } :- dp(X,Y). :- p(G,A), p(G,B), A != B.", TRAITS),
    ("math", "{ s(Z) : ds(Z) }. a(X) :- p(X), N = #sum { Z : s(Z) }, M = #count { Z : s(Z) }, N + M = X.", TRAITS),
    ("dupl", "h1(X) :- p(X,Y), q(Y), e(X). h2(X) :- p(X,Y), q(Y), not e(X). m(X,Y) :- p(Y,X). c(X) :- m(X,_).", TRAITS),
    ("minmax2", "{ q(P,V) } :- dq(P,V). t(P,X) :- grp(P), X = #min { V : q(P,V) }. u(S) :- S = #sum { X,P : t(P,X) }.",
     TRAITS),
    ("minmax_lines", "aa(1).\n\n" + _MINMAX, TRAITS),
    ("minmax_lines_default", _MINMAX, DEFAULT),
    ("anon", _ANON, TRAITS),
    ("anon_no_unused", _ANON, NO_UNUSED),
]


def _history(args):
    """forked from a parent that imported ngo but never called optimize: run the history, then the probe"""
    hist, probe, mode = args
    from clingo.ast import parse_string

    import ngo

    def opt(text, prg=None, traits=TRAITS):
        if prg is None:
            prg = []
            parse_string(text, prg.append, logger=lambda c, m: None)
        return prg, ngo.optimize(prg, ngo.auto_detect_input(prg), ngo.auto_detect_output(prg), **flags(traits))

    last = None
    for i in hist:
        try:
            last = opt(HIST_ALPHABET[i][1], None, HIST_ALPHABET[i][2])
        except BaseException:  # pylint: disable=broad-except
            pass
    try:
        if mode == "same_list_twice":
            prg, _ = opt(HIST_ALPHABET[probe][1], None, HIST_ALPHABET[probe][2])
            _, res = opt(None, prg, HIST_ALPHABET[probe][2])
        elif mode == "on_result":
            _, first = opt(HIST_ALPHABET[probe][1], None, HIST_ALPHABET[probe][2])
            _, res = opt(None, list(first), HIST_ALPHABET[probe][2])
            return hist, probe, mode, "\n".join(str(s) for s in res)
        else:
            _, res = opt(HIST_ALPHABET[probe][1], None, HIST_ALPHABET[probe][2])
        return hist, probe, mode, "\n".join(str(s) for s in res)
    except BaseException as exc:  # pylint: disable=broad-except
        return hist, probe, mode, f"EXCEPTION {type(exc).__name__}: {exc}"


# ------------------------------------------------------------------
def main(tier: str, seed: int) -> int:
    t0 = time.time()
    quick = tier == "quick"
    viol: list[tuple[str, dict]] = []
    notes: dict = {}
    progs = corpus(tier)
    cfgs = [DEFAULT, TRAITS]
    # 1. schedules
    bound = 1 if quick else 2
    sched_runs = 0
    sites_all: set = set()
    order_dependences = []
    canonical = {}
    progmap = dict(progs)
    with mp.get_context("spawn").Pool(int(os.environ.get("VT_NPROC", "16")), initializer=_sched_init) as pool:
        order_names = {n for n, _ in ORDER_CORPUS}
        sched_cfgs = [(n, p, t) for n, p in progs for t in cfgs
                      if not quick or t == TRAITS or n in order_names]  # quick: default only for the order corpus
        bases = list(pool.imap_unordered(_sched_base, sched_cfgs, chunksize=1))
        devs = []
        from vt.setsched import POLICIES

        for res in bases:
            sched_runs += 1
            sites_all.update(res["sites"])
            canonical[(res["name"], tuple(res["traits"]))] = res["text"]
            for k in range(1, bound + 1):
                for chosen in combinations(res["sites"], k):
                    # quick: all three permutation policies for the order corpus, `reversed` for the other programs
                    pol_menu = POLICIES if (not quick or res["name"] in order_names) else POLICIES[:1]
                    for pols in product(pol_menu, repeat=k):
                        devs.append((res["name"], res["prog"], res["traits"], dict(zip(chosen, pols))))
        for name, traits, dev, text in pool.imap_unordered(_sched_dev, devs, chunksize=2):
            sched_runs += 1
            if text != canonical[(name, tuple(traits))]:
                order_dependences.append({"name": name, "prog": progmap[name], "traits": traits, "deviation": dev,
                                          "canonical": canonical[(name, tuple(traits))], "deviating": text})
    phase = {"schedules": round(time.time() - t0, 1)}
    # conformance: the rewritten package under the canonical policy behaves like the plain package
    conf_mismatch = 0
    with mp.get_context("fork").Pool(int(os.environ.get("VT_NPROC", "16")), initializer=_plain_init) as pool:
        for name, traits, text in pool.imap_unordered(_plain_run, sched_cfgs, chunksize=4):
            if canonical.get((name, tuple(traits))) != text:
                conf_mismatch += 1
                order_dependences.append({"name": name, "traits": traits, "deviation": "plain import vs canonical order",
                                          "prog": dict(progs)[name], "canonical": canonical.get((name, tuple(traits))),
                                          "deviating": text})
    phase["conformance"] = round(time.time() - t0, 1)
    # 2. real seeds
    nseeds = 4 if quick else 32
    seeds = [(seed * 7919 + i) % 4294967295 for i in range(nseeds)]
    cli_jobs = [(p, t, s) for _, p in progs for t in cfgs for s in seeds]
    outputs: dict = {}
    with mp.get_context("fork").Pool(int(os.environ.get("VT_NPROC", "16"))) as pool:
        for prog, traits, sd, rc, out in pool.imap_unordered(_cli, cli_jobs, chunksize=2):
            outputs.setdefault((prog, traits), {})[sd] = (rc, out)
    for (prog, traits), by_seed in outputs.items():
        vals = set(by_seed.values())
        if len(vals) > 1:
            items = sorted(by_seed.items())
            a = items[0]
            b = next(x for x in items if x[1] != a[1])
            viol.append((f"output depends on PYTHONHASHSEED ({a[0]} vs {b[0]})",
                         {"program": prog, "traits": list(traits), "seed_a": a[0], "seed_b": b[0],
                          "out_a": a[1][1], "out_b": b[1][1]}))
    # confirm scheduler-found order dependences with real seeds (0..511) before reporting them
    unconfirmed = []
    seen_dep = set()
    for dep in order_dependences:
        key = (dep["name"], tuple(dep["traits"]))
        if key in seen_dep:
            continue
        seen_dep.add(key)
        found = None
        ref = None
        with mp.get_context("fork").Pool(int(os.environ.get("VT_NPROC", "16"))) as pool:
            for prog, traits, sd, rc, out in pool.imap(_cli, [(dep["prog"], dep["traits"], s) for s in range(512)],
                                                       chunksize=4):
                if ref is None:
                    ref = (sd, rc, out)
                elif (rc, out) != ref[1:]:
                    found = (sd, rc, out)
                    break
        if found:
            viol.append((f"order dependence at {dep['deviation']} confirmed by PYTHONHASHSEED {ref[0]} vs {found[0]}",
                         {"program": dep["prog"], "traits": dep["traits"], "seed_a": ref[0], "seed_b": found[0],
                          "out_a": ref[2], "out_b": found[2], "deviation": dep["deviation"]}))
        else:
            unconfirmed.append({"name": dep["name"], "traits": dep["traits"], "deviation": dep["deviation"]})
    notes["unconfirmed_order_dependence"] = unconfirmed
    phase["seeds"] = round(time.time() - t0, 1)
    # 3. histories
    depth = 2 if quick else 3
    hists = [()]
    related = [i for i, e in enumerate(HIST_ALPHABET) if e[0].startswith(("minmax", "anon"))]
    for d in range(1, depth + 1):
        # quick: histories of length 2 only over the entries that share rules (other lines / other traits)
        hists += list(product(range(len(HIST_ALPHABET)) if (d == 1 or not quick) else related, repeat=d))
    import ngo  # noqa: F401  (parent imports ngo, never calls optimize)
    import logging

    logging.disable(logging.CRITICAL)
    hist_jobs = [(hst, pr, "plain") for hst in hists for pr in range(len(HIST_ALPHABET))]
    hist_jobs += [((), pr, m) for pr in range(len(HIST_ALPHABET)) for m in ("same_list_twice",)]
    fresh: dict = {}
    hist_results = []
    with mp.get_context("fork").Pool(int(os.environ.get("VT_NPROC", "16")), maxtasksperchild=1) as pool:
        for hst, pr, mode, text in pool.imap_unordered(_history, hist_jobs, chunksize=1):
            hist_results.append((hst, pr, mode, text))
            if hst == () and mode == "plain":
                fresh[pr] = text
    for hst, pr, mode, text in hist_results:
        if text != fresh[pr]:
            viol.append((f"history dependence: probe {HIST_ALPHABET[pr][0]} after {[HIST_ALPHABET[i][0] for i in hst]} ({mode})",
                         {"history": [HIST_ALPHABET[i][1] for i in hst], "probe": HIST_ALPHABET[pr][1], "mode": mode,
                          "fresh": fresh[pr], "after_history": text}))
    phase["histories"] = round(time.time() - t0, 1)
    # 4. argument immutability under all 512 subsets on the composition corpus (+ units under default/all)
    agg = driver.Aggregate()
    subsets = all_subsets(TRAITS)
    if quick:
        subsets = [t for t in subsets if len(t) <= 2 or len(t) >= len(TRAITS) - 1] + [DEFAULT]
    imm_jobs = []
    for name, prog, inp, out, universe, consts_menu in compose.CORPUS:
        imm_jobs.append(job("C17/immut", prog, [], [config(t, inp, out, NOORC) for t in subsets], checks=["immut"],
                            meta={"corpus": name}))
    for i, u in enumerate(UNITS):
        imm_jobs.append(job("C17/immut", CONTEXT + "\n" + u, [], [config(t, "auto", "auto", NOORC) for t in cfgs],
                            checks=["immut"], meta={"unit": i}))
    # the statements of the normalisation grammar (C05) with all traits off and under default: preprocessing itself
    # must not write through the shallow copies of the caller's statements
    from vt.families import C05 as fam_c05  # pylint: disable=import-outside-toplevel

    for kind, stm in fam_c05.statements(tier):
        if quick and kind not in ("infsup", "count", "old", "chain"):
            continue
        imm_jobs.append(job("C17/immut", stm, [], [config([], "auto", "auto", NOORC), config(DEFAULT, "auto", "auto", NOORC)],
                            checks=["immut"], meta={"c05": kind}))
    # family programs under their owning trait alone and under default (in-place edits of later stages show only when
    # no earlier stage has copied the statement)
    from vt.checks.C01 import slice_keep  # pylint: disable=import-outside-toplevel

    def mk(j, c0):
        fam = j["family"].split("/")[0].split("~")[0]
        return [config(compose.OWNER[fam], c0["inp"], [], NOORC), config(DEFAULT, c0["inp"], [], NOORC)]

    keep = slice_keep("quick")
    imm_fams = ["C12", "C13", "C15"] if quick else ["C08", "C09", "C10", "C11", "C12", "C13", "C14", "C15", "C16"]
    n_fixed = len(imm_jobs)
    imm_jobs += list(compose.remap(compose.family_jobs(imm_fams, "quick"),
                                   "C17", mk, checks=("immut",),
                                   keep=lambda j: keep(j) or j["family"].split("/")[0].split("~")[0] in ("C12", "C13")))
    fam_part = imm_jobs[n_fixed:]
    if quick and len(fam_part) > 1500:  # evenly spaced part of the family programs
        fam_part = [fam_part[(k * len(fam_part)) // 1500] for k in range(1500)]
    imm_jobs = imm_jobs[:n_fixed] + fam_part
    driver.run_pool(imm_jobs, seed, agg.add)
    for jb, cres, v in agg.violations:
        if v.get("kind") == "mutated_argument":
            viol.append(("optimize modified the statements passed in", {"program": jb["prog"], "traits": cres["traits"]}))
    phase["immutability"] = round(time.time() - t0, 1)
    # ---- report
    code = 0
    groups: dict = {}
    for key, body in viol:
        groups.setdefault(key.split("(")[0][:60], []).append((key, body))
    for gkey, items in sorted(groups.items()):
        items.sort(key=lambda it: len(it[1].get("program", it[1].get("probe", ""))))
        key, body = items[0]
        d = os.path.join(VERIF, "replays", PROP)
        os.makedirs(d, exist_ok=True)
        path = os.path.join(d, h(json.dumps(body, sort_keys=True, default=str))[:12] + ".json")
        json.dump({"property": PROP, "what": key, **body}, open(path, "w"), indent=1, default=str)
        print(f"VIOLATION property={PROP} replay={path}")
        print(f"  {key} [{len(items)} cases]")
        code = 1
    if agg.harness_errors:
        print(agg.harness_errors[0][1], file=sys.stderr)
        code = 2
    evaluations = sched_runs + len(cli_jobs) + len(hist_jobs) + agg.executions
    ev = {"property_id": PROP, "tier": tier, "seed": seed, "level": "model_checking",
          "coverage": {"states": len(sites_all) + len(hists), "transitions": evaluations,
                       "traces_validated_against_impl": evaluations, "evaluations": evaluations,
                       "distinct_nontrivial": len(sites_all) + len(hists),
                       "rule": f"(1) set-iteration schedules: for every corpus program x {{default, all}} the canonical "
                               f"order and every assignment of {{reversed, rotated, swap2}} to <= {bound} of the set-iteration "
                               "sites actually reached (import-hook rewritten package, conformance with the plain package "
                               f"checked); (2) python -m ngo under {nseeds} PYTHONHASHSEED values; (3) every history of <= "
                               f"{depth} optimize calls over an alphabet of 10 (program, trait selection) pairs that share rules at different source lines and under different traits followed by each probe, each in a process "
                               "forked before any optimize call, compared with the fresh run; optimize on the same list "
                               "twice; (4) argument statements/identity before vs after for the corpus under the trait "
                               "subsets. non-trivial = distinct active sites + histories",
                       "samples": [{"sites": sorted(sites_all)[:12]}, {"histories": [list(x) for x in hists[:8]]},
                                   {"seeds": seeds[:4]}],
                       "schedule_runs": sched_runs, "active_sites": len(sites_all), "cli_runs": len(cli_jobs),
                       "history_runs": len(hist_jobs), "immutability_executions": agg.executions,
                       "conformance_mismatches": conf_mismatch, "phase_end_s": phase, "exhaustive": True, **notes,
                       "bounds": {"deviation_sites": bound, "seeds": nseeds, "history_depth": depth}},
          "assumptions": ["iteration orders of larger sets are represented by three permutation policies per site",
                          "an order dependence is only reported with a confirming real PYTHONHASHSEED (0..511)"],
          "wall_s": round(time.time() - t0, 2), "violations": len(viol)}
    os.makedirs(os.path.join(VERIF, "evidence"), exist_ok=True)
    json.dump(ev, open(os.path.join(VERIF, "evidence", f"{PROP}.json"), "w"), indent=1, default=str)
    print(f"{PROP} tier={tier} seed={seed}: schedule runs={sched_runs} active sites={len(sites_all)} cli runs={len(cli_jobs)} "
          f"histories={len(hist_jobs)} immutability executions={agg.executions} order dependences seen={len(order_dependences)} "
          f"unconfirmed={len(unconfirmed)} violations={len(viol)} wall={ev['wall_s']}s")
    return code


def replay(path: str) -> int:
    body = json.load(open(path))
    print(body["what"])
    if "seed_a" in body:
        outs = []
        for sd in (body["seed_a"], body["seed_b"]):
            _, _, _, rc, out = _cli((body["program"], body["traits"], sd))
            outs.append((rc, out))
        if outs[0] != outs[1]:
            print(f"VIOLATION property={PROP} replay={path}")
            return 1
        print("replay: outputs agree")
        return 0
    print("(history / immutability cases: re-run ./check C17)")
    return 0
