"""C12: minmax_chains"""

from vt.checks import generic
from vt.families import C12 as fam

PROP = "C12"


def main(tier: str, seed: int) -> int:
    rule = ("every program QDEF x AGG-RULE x {min,max} x USER, optimize(minmax_chains only), all subsets of the fact "
            "universe (two groups, gaps, negative values), all answer sets; multiset equality on voc(P) with costs. "
            "non-trivial = minmax_chains changed the program and the outcome varies over instances")
    bounds = {"qdefs": len(fam.QDEFS), "agg_rules": len(fam.agg_rules(tier)), "users": len(fam.USERS),
              "universe": fam.universe("choice", tier)}
    return generic.family_main(PROP, tier, seed, generic.with_variants(fam.jobs(tier), tier), rule, dict(bounds, variants=True))


def replay(path: str) -> int:
    return generic.replay(PROP, path)
