"""C08: cleanup deletes only literals and rules that cannot matter"""

from vt.checks import generic
from vt.families import C08 as fam

PROP = "C08"


def main(tier: str, seed: int) -> int:
    kmax = 2 if tier == "quick" else 3
    rule = ("every program DEF x USE x {2.." + str(kmax) + "}-subset of the 17-literal menu, optimize(cleanup only), "
            "all subsets of the fact universe, all answer sets; multiset equality of answer sets projected on voc(P) "
            "with costs. non-trivial = cleanup changed the program and the source outcome varies over instances")
    bounds = {"defs": len(fam.DEFS), "uses": len(fam.USES), "menu": len(fam.MENU), "literals_per_scope": kmax,
              "universe": fam.U0, "universe_with_b_input": fam.UB}
    return generic.family_main(PROP, tier, seed, generic.with_variants(fam.jobs(tier), tier), rule, dict(bounds, variants=True))


def replay(path: str) -> int:
    return generic.replay(PROP, path)
