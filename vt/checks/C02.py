"""C02: optimisation statements keep the cost of every answer set"""

from __future__ import annotations

from vt.checks import generic
from vt.checks.C01 import last_heads, slice_keep
from vt.common import DEFAULT, TRAITS, all_subsets
from vt.families import compose
from vt.families.base import config, orc

PROP = "C02"
COST_ORC = orc("inout", costs=True, multiset=False)
VOC_ORC = orc("voc", costs=True, multiset=True)


def jobs(tier: str):
    quick = tier == "quick"
    subsets = all_subsets(TRAITS)
    if quick:
        subsets = [t for t in subsets if len(t) <= 2 or len(t) >= len(TRAITS) - 1] + [DEFAULT]
    for name, prog, inp, out, universe, consts_menu in compose.CORPUS:
        if name not in compose.HAS_OBJECTIVE:
            continue
        for consts in consts_menu:
            cfgs = [config(t, inp, out, COST_ORC) for t in subsets]
            cfgs += [config(t, inp, [], COST_ORC) for t in ([DEFAULT, TRAITS] if quick else subsets)]
            yield compose.corpus_job(name, prog, inp, out, universe, consts, cfgs, "C02/corpus")

    def mk(j, c0):
        fam = j["family"].split("/")[0].split("~")[0]
        inp = c0["inp"]
        if inp != "auto":
            upreds = sorted({(f.split("(")[0], f.count(",") + 1 if "(" in f else 0) for f in j["universe"]})
            inp = [list(p) for p in sorted({tuple(p) for p in inp} | set(upreds))]
        owner = compose.OWNER[fam]
        out = last_heads(j["prog"], inp)
        cfgs = [config(owner, inp, out, COST_ORC)]
        if fam not in ("C09", "C15"):  # traits that keep all source atoms: compare the whole vocabulary with costs
            cfgs = [config(owner, inp, out, VOC_ORC)]
        cfgs.append(config(TRAITS, inp, out, COST_ORC))
        if not quick:
            cfgs.append(config(DEFAULT, inp, out, COST_ORC))
            cfgs.append(config(TRAITS, inp, [], COST_ORC))
        return cfgs

    keep1 = slice_keep("quick")
    fams = ["C05", "C08", "C09", "C10", "C11", "C12", "C13", "C14", "C15"]
    yield from compose.remap(compose.family_jobs(fams, "quick", variants=12 if quick else 60), "C02", mk,
                             keep=lambda j: compose.has_objective(j["prog"]) and (
                                 keep1(j) or j["family"].split("/")[0].split("~")[0] in ("C13",)))


def main(tier: str, seed: int) -> int:
    rule = ("objective-bearing programs: composition corpus programs with #minimize/#maximize/:~ x trait subsets (quick: "
            "pairwise bound 57, thorough: 512) and every family program of C05,C08-C15 that contains an optimisation "
            "statement under its owning trait and under all traits; all instances, all answer sets; equality of "
            "{(answer set on IN u OUT or voc(P), cost per priority with zero levels dropped)}. non-trivial = some pass "
            "changed the program and the outcome varies")
    bounds = {"corpus_objective_programs": len(compose.HAS_OBJECTIVE), "families": 9}
    return generic.family_main(PROP, tier, seed, jobs(tier), rule, bounds)


def replay(path: str) -> int:
    return generic.replay(PROP, path)
