"""C19: the command line is the API (E5 option-space explorer)"""

from __future__ import annotations

import contextlib
import io
import json
import os
import subprocess
import sys
import time
from itertools import product

from vt.common import DEFAULT, TRAITS, VERIF, all_subsets, flags, h, parse, prg_text

PROP = "C19"
TOKENS = ["all", "none", "default"] + TRAITS
PROGRAM = """b(X,Y) :- dom(X), dom(Y), X+Y < 4.
a(X,Y) :- b(X,Y), dom(X), dom(Y).
{ c(X) } :- a(X,_).
foo :- c(X), dom(X).
#show foo/0. #show c/1."""
PROGRAMS_E2E = [
    PROGRAM,
    """worker(W) :- employee(W).
{ shift(W,D) : worker(W) } :- day(D).
:- shift(W1,D), shift(W2,D), W1 != W2.
best(X) :- X = #max { D : shift(_,D) }.
#minimize { X : best(X) }.""",
    """{ sh(D,L) : ps(D,L) } 1 :- day(D).
1 #sum { X,a : a(X) : day(X) } 3.
-b(X) :- day(X), not sh(X,_).
a(S) :- S = #sum { L,D : sh(D,L) }.
#external ext(X) : day(X).
#show a/1.""",
    "",
]

PRED_OPTS = [  # (argv fragment, expected: 'auto' | list | 'reject')
    ([], "auto"),
    (["{O}=auto"], "auto"),
    (["{O}"], []),
    (["{O}="], []),
    (["{O}=a/1"], [("a", 1)]),
    (["{O}=a/1,b/2"], [("a", 1), ("b", 2)]),
    (["{O}= a/1 , b/0"], [("a", 1), ("b", 0)]),
    (["{O}", "dom/1"], [("dom", 1)]),
    (["{O}=a/1,a/2"], [("a", 1), ("a", 2)]),
    (["{O}=b/2,a/1,b/0"], [("b", 2), ("a", 1), ("b", 0)]),
    (["{O}=a/1,a/1"], [("a", 1), ("a", 1)]),
    (["{O}=litCount/1,a_B/2"], [("litCount", 1), ("a_B", 2)]),
    (["{O}=aUTO/0"], [("aUTO", 0)]),
    (["{O}=a"], "reject"),
    (["{O}=a/x"], "reject"),
    (["{O}=a/1/2"], "reject"),
    (["{O}=a/1,,b/2"], "reject"),
]
LOG_OPTS = [([], True), (["--log", "error"], True), (["--log=warning"], True), (["--log", "INFO"], True),
            (["--log", "debug"], True), (["--log", "bogus"], False)]


def expansion(values: list[str]):
    """reference model of --enable: documented expansion; None = rejected"""
    low = [v.lower() for v in values]
    if len(low) > 1 and "none" in low:
        return None
    if "all" in low:
        return set(TRAITS)
    if "default" in low:
        return (set(low) - {"default"}) | set(DEFAULT)
    if low == ["none"]:
        return set()
    return set(low)


CANNED_MARK = "canned__statement"


def run_main(argv: list[str], prog: str):
    """run the real main() in process with optimize/parse_files replaced by spies"""
    import ngo.__main__ as cli

    calls = []
    canned = parse(f"{CANNED_MARK}(1).\n{CANNED_MARK}(2) :- x.")

    def spy(prg, inp, out, **kw):
        calls.append((list(prg), list(inp) if inp is not None else None, list(out) if out is not None else None, dict(kw)))
        return canned

    def fake_parse_files(files, callback, logger=None):  # noqa
        assert files == ["-"]
        for s in parse(prog):
            callback(s)

    old = (cli.optimize, cli.parse_files, sys.argv)
    cli.optimize, cli.parse_files = spy, fake_parse_files
    sys.argv = ["ngo"] + argv
    out, err = io.StringIO(), io.StringIO()
    status = 0
    exc = None
    try:
        with contextlib.redirect_stdout(out), contextlib.redirect_stderr(err):
            cli.main()
    except SystemExit as e:
        status = e.code if isinstance(e.code, int) else 1
    except BaseException as e:  # pylint: disable=broad-except
        status = 1
        exc = f"{type(e).__name__}: {e}"
    finally:
        cli.optimize, cli.parse_files, sys.argv = old
    return status, out.getvalue(), err.getvalue(), calls, exc, prg_text(canned) + "\n"


def check_wiring(enable, in_opt, out_opt, log_opt, prog: str):
    from ngo import auto_detect_input, auto_detect_output

    argv = []
    exp_traits = set(DEFAULT)
    if enable is not None:
        argv += ["--enable"] + enable
        exp_traits = expansion(enable)
    in_frag, in_exp = in_opt
    out_frag, out_exp = out_opt
    argv += [f.format(O="--input-predicates") for f in in_frag]
    argv += [f.format(O="--output-predicates") for f in out_frag]
    log_frag, log_ok = log_opt
    argv += log_frag
    status, out, err, calls, exc, canned_text = run_main(argv, prog)
    reject = exp_traits is None or in_exp == "reject" or out_exp == "reject" or not log_ok
    errs = []
    if reject:
        if status == 0:
            errs.append(f"invalid combination accepted (exit 0)")
        if out != "":
            errs.append(f"invalid combination wrote to stdout: {out[:80]!r}")
        if calls:
            errs.append("optimize called for an invalid combination")
        return argv, errs
    if status != 0 or exc:
        errs.append(f"valid combination failed: status={status} {exc} {err[-200:]}")
        return argv, errs
    if len(calls) != 1:
        errs.append(f"optimize called {len(calls)} times")
        return argv, errs
    prg, inp, outp, kw = calls[0]
    src = parse(prog)
    if [str(s) for s in prg] != [str(s) for s in src]:
        errs.append("optimize did not get the parsed program")
    want_in = [(p.name, p.arity) for p in auto_detect_input(src)] if in_exp == "auto" else in_exp
    want_out = [(p.name, p.arity) for p in auto_detect_output(src)] if out_exp == "auto" else out_exp
    if inp is None or [(p.name, p.arity) for p in inp] != want_in:
        errs.append(f"input predicates {inp} != {want_in}")
    if outp is None or [(p.name, p.arity) for p in outp] != want_out:
        errs.append(f"output predicates {outp} != {want_out}")
    if kw != flags(exp_traits):
        errs.append(f"trait flags {sorted(k for k, v in kw.items() if v)} != documented {sorted(exp_traits)}")
    if out != canned_text:
        errs.append(f"stdout is not exactly the returned statements: {out[:120]!r}")
    return argv, errs


def e2e_one(args):
    traits, prog, extra, spelled = args
    import logging

    logging.disable(logging.CRITICAL)
    import ngo
    from ngo import auto_detect_input, auto_detect_output

    argv = ["--enable"] + spelled + extra
    env = dict(os.environ, PYTHONHASHSEED="0")
    env.pop("NGO_VERIF", None)
    p = subprocess.run([sys.executable, "-m", "ngo"] + argv, input=prog, capture_output=True, text=True, env=env,
                       timeout=600)
    src = parse(prog)
    inp = auto_detect_input(src)
    outp = auto_detect_output(src)
    if "--input-predicates=dom/1,employee/1,day/1,ps/2" in extra:
        inp = [ngo.Predicate("dom", 1), ngo.Predicate("employee", 1), ngo.Predicate("day", 1), ngo.Predicate("ps", 2)]
    if "--output-predicates" in extra:
        outp = []
    try:
        res = ngo.optimize(src, inp, outp, **flags(traits))
        want = "".join(str(s) + "\n" for s in res)
        want_status = 0
    except BaseException as exc:  # pylint: disable=broad-except
        want, want_status = None, 1
    errs = []
    if want is None:
        if p.returncode == 0:
            errs.append("optimize raises in process but the command line exits 0")
    else:
        if p.returncode != want_status:
            errs.append(f"exit status {p.returncode}: {p.stderr[-300:]}")
        elif p.stdout != want:
            errs.append(f"stdout differs from optimize(): {p.stdout[:150]!r} vs {want[:150]!r}")
    return argv, prog, errs


def main(tier: str, seed: int) -> int:
    import logging

    t0 = time.time()
    os.environ["NGO_VERIF"] = "1"
    quick = tier == "quick"
    kmax = 2 if quick else 3
    lists = []
    for k in range(1, kmax + 1):
        lists += [list(t) for t in product(TOKENS, repeat=k)]
    lists += [["Math"], ["ALL"], ["Default", "DUPLICATION"], ["None"], ["none", "none"]]
    viol = []
    states = set()
    evaluations = 0
    samples = []
    outcomes = set()

    def record(argv, errs):
        nonlocal evaluations
        evaluations += 1
        states.add(h(" ".join(argv)))
        if len(samples) < 3 or (evaluations % 401 == 0 and len(samples) < 8):
            samples.append({"argv": argv, "errors": errs})
        for e in errs:
            viol.append((argv, e))

    # (A) wiring, in process
    for en in [None] + lists:
        argv, errs = check_wiring(en, PRED_OPTS[0], PRED_OPTS[0], LOG_OPTS[0], PROGRAM)
        record(argv, errs)
        outcomes.add(("enable", tuple(sorted(expansion(en))) if en and expansion(en) is not None else None))
    for in_opt, out_opt, log_opt in product(PRED_OPTS, PRED_OPTS, LOG_OPTS):
        argv, errs = check_wiring(["default"], in_opt, out_opt, log_opt, PROGRAM)
        record(argv, errs)
    short = [l for l in lists if len(l) <= (1 if quick else 2)]
    for en, in_opt in product(short, PRED_OPTS):
        argv, errs = check_wiring(en, in_opt, PRED_OPTS[2], LOG_OPTS[1], PROGRAM)
        record(argv, errs)
    # repeated main() calls in one process: module level option lists must not be mutated
    for en in (["default", "duplication"], ["all"], ["default"], ["math", "default"], ["all", "default"], ["default"]):
        argv, errs = check_wiring(en, PRED_OPTS[0], PRED_OPTS[0], LOG_OPTS[0], PROGRAM)
        record(argv + ["#repeat"], errs)
    logging.disable(logging.CRITICAL)
    # (B) end to end, real subprocesses
    jobs = []
    subsets = all_subsets(TRAITS)
    progs = PROGRAMS_E2E[:2] if quick else PROGRAMS_E2E
    for prog in progs:
        for t in subsets:
            jobs.append((t, prog, [], list(t) if t else ["none"]))
    for prog in PROGRAMS_E2E:
        for spelled, t in ((["all"], TRAITS), (["default"], DEFAULT), (["default", "duplication"], TRAITS),
                           (["none"], []), (["default", "math"], DEFAULT)):
            for extra in ([], ["--input-predicates=dom/1,employee/1,day/1,ps/2"], ["--output-predicates"],
                          ["--log", "debug"], ["--log", "error"]):
                jobs.append((t, prog, extra, spelled))
    import multiprocessing as mp

    with mp.get_context("fork").Pool(int(os.environ.get("VT_NPROC", "16"))) as pool:
        for argv, prog, errs in pool.imap_unordered(e2e_one, jobs, chunksize=2):
            record(argv + ["<", h(prog)], errs)
    code = 0
    groups = {}
    for argv, err in viol:
        groups.setdefault(err.split(":")[0][:70], []).append(argv)
    for key, argvs in sorted(groups.items()):
        argvs.sort(key=lambda a: (len(a), a))
        d = os.path.join(VERIF, "replays", PROP)
        os.makedirs(d, exist_ok=True)
        path = os.path.join(d, h(key + " ".join(argvs[0]))[:12] + ".json")
        json.dump({"property": PROP, "argv": argvs[0], "error": key, "count": len(argvs)}, open(path, "w"), indent=1)
        print(f"VIOLATION property={PROP} replay={path}")
        print(f"  {key} [{len(argvs)} argument lists], e.g. ngo {' '.join(argvs[0])}")
        code = 1
    ev = {"property_id": PROP, "tier": tier, "seed": seed, "level": "model_checking",
          "coverage": {"states": len(states), "transitions": evaluations, "traces_validated_against_impl": evaluations,
                       "evaluations": evaluations, "distinct_nontrivial": len(states),
                       "rule": f"(A) real get_parser/Actions/main() in process with optimize and parse_files replaced by "
                               f"spies: every --enable list of length <= {kmax} over 12 tokens (+case variants), "
                               "12 x 12 forms of --input/--output-predicates x 6 --log forms, repeated calls; reference "
                               "model = documented expansion; (B) python -m ngo subprocesses for all 512 trait subsets x "
                               f"{len(progs)} programs and 5 spellings x 5 option sets x {len(PROGRAMS_E2E)} programs: "
                               "stdout must equal the in-process optimize() result line by line, exit status 0",
                       "samples": samples, "enable_lists": len(lists), "subprocess_runs": len(jobs),
                       "distinct_outcomes": len(outcomes), "exhaustive": True,
                       "bounds": {"enable_list_length": kmax, "subsets_e2e": 512}},
          "assumptions": ["argparse of the running Python is the real parser", "reference expansion is the documented one"],
          "wall_s": round(time.time() - t0, 2), "violations": len(viol)}
    os.makedirs(os.path.join(VERIF, "evidence"), exist_ok=True)
    json.dump(ev, open(os.path.join(VERIF, "evidence", f"{PROP}.json"), "w"), indent=1, default=str)
    print(f"{PROP} tier={tier}: argument lists={evaluations} subprocess runs={len(jobs)} violations={len(viol)} "
          f"wall={ev['wall_s']}s")
    return code


def replay(path: str) -> int:
    body = json.load(open(path))
    argv = [a for a in body["argv"] if not a.startswith("#")]
    if "<" in argv:
        argv = argv[:argv.index("<")]
    status, out, err, calls, exc, _ = run_main(argv, PROGRAM)
    print("argv:", argv, "status:", status, "exception:", exc)
    print("flags:", calls[0][3] if calls else None)
    print("recorded error:", body["error"])
    print("(re-run ./check C19 to evaluate against the reference model)")
    return 0
