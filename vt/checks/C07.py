"""C07: interface predicates are untouched and every invented name is fresh"""

from __future__ import annotations

import os
import re
from itertools import combinations

from clingo.ast import ASTType

from vt.checks import generic
from vt.common import DEFAULT, TRAITS, parse, vocabulary
from vt.families.base import config, job, orc

PROP = "C07"
VOC = orc("voc", costs=True, multiset=True)

# name, program, IN, universe, traits that invent names here
TRIGGERS = [
    ("duplication", "h1(X) :- p(X,Y), q(Y), e(X).\nh2(X) :- p(X,Y), q(Y), not e(X).",
     [["p", 2], ["q", 1], ["e", 1]], ["p(1,2)", "p(2,2)", "q(2)", "e(1)", "e(2)"], ["duplication"]),
    ("projection", "h(A,D) :- q3(A,B,C), r2(A,D), t(E), not s2(B,E).",
     [["q3", 3], ["r2", 2], ["t", 1], ["s2", 2], ["e", 1]], ["q3(1,1,1)", "q3(2,1,2)", "r2(1,1)", "r2(2,3)", "t(1)", "s2(1,1)", "e(1)"],
     ["projection"]),
    ("symmetry_agg", "{ m(A,W) } :- dm(A,W).\nbad :- #count { W : m(M1,W), m(M2,W), M1 != M2 } >= 1.",
     [["dm", 2], ["e", 1]], ["dm(1,1)", "dm(2,1)", "dm(1,2)", "e(1)"], ["symmetry"]),
    ("symmetry_dom", "{ sl(J,M) } :- dsl(J,M).\n:- sl(J1,M), sl(J2,M), J1 != J2.",
     [["dsl", 2], ["e", 1]], ["dsl(1,1)", "dsl(2,1)", "dsl(1,2)", "e(1)"], ["symmetry"]),
    ("minmax", "{ q(P,V) } :- dq(P,V).\nr(P,X) :- grp(P), X = #max { V : q(P,V) }.",
     [["dq", 2], ["grp", 1], ["e", 1]], ["grp(1)", "grp(2)", "dq(1,1)", "dq(1,3)", "dq(2,2)", "e(1)"], ["minmax_chains"]),
    ("minmax_min", "{ q(P,V) } :- dq(P,V).\nr(X) :- X = #min { V : q(P,V) }.\n:~ r(X), X > 0. [X@1]",
     [["dq", 2], ["e", 1]], ["dq(1,1)", "dq(1,3)", "dq(2,2)", "e(1)"], ["minmax_chains"]),
    ("sum_chains", "{ sh(D,L) : ps(D,L) } 1 :- day(D).\na(X) :- X = #sum { L,D : sh(D,L) }.\n:~ sh(D,L). [L@1,D]",
     [["ps", 2], ["day", 1], ["e", 1]], ["day(1)", "day(2)", "ps(1,1)", "ps(1,3)", "ps(2,2)", "e(1)"], ["sum_chains"]),
    ("unused", "b(X,Y) :- db(X,Y), not e(X).\nc(X) :- b(X,_).\n:- c(X), db(X,X).",
     [["db", 2], ["e", 1]], ["db(1,2)", "db(2,2)", "db(2,1)", "e(1)"], ["unused"]),
    ("unused_same_name", "p(X,Y) :- a(X), b(Y).\np(X,Y,Z) :- c(X), b(Y), b(Z).\nq(X) :- p(X,_).\nr(X) :- p(X,_,_).",
     [["a", 1], ["b", 1], ["c", 1], ["e", 1]], ["a(1)", "b(1)", "c(2)", "e(1)"], ["unused"]),
    ("duplication_two", "h1(X) :- p(X,Y), q(Y), e(X).\nh2(X) :- p(X,Y), q(Y), not e(X).\nh3(X) :- q(X), e(X), p(X,X).\n"
                        "h4(Y) :- q(Y), e(Y), not p(Y,Y).", [["p", 2], ["q", 1], ["e", 1]],
     ["p(1,2)", "p(2,2)", "q(2)", "q(1)", "e(1)", "e(2)"], ["duplication"]),
    ("projection_two", "h(A,D) :- q3(A,B,C), r2(A,D), t(E), not s2(B,E).\nk(A,D) :- q3(A,B,C), r2(D,A), t(E), s2(B,E).",
     [["q3", 3], ["r2", 2], ["t", 1], ["s2", 2], ["e", 1]],
     ["q3(1,1,1)", "q3(2,1,2)", "r2(1,1)", "r2(2,3)", "t(1)", "s2(1,1)", "e(1)"], ["projection"]),
    ("symmetry_two", "{ m(A,W) } :- dm(A,W).\nbad :- #count { W : m(M1,W), m(M2,W), M1 != M2 } >= 1.\n"
                     "worse :- #count { A : m(A,W1), m(A,W2), W1 != W2 } >= 1.",
     [["dm", 2], ["e", 1]], ["dm(1,1)", "dm(2,1)", "dm(1,2)", "e(1)"], ["symmetry"]),
    ("minmax_two", "{ q(P,V) } :- dq(P,V).\nr(P,X) :- grp(P), X = #max { V : q(P,V) }.\ns(P,X) :- grp(P), X = #min { V : q(P,V) }.\n"
                   "t(X) :- X = #max { V : q(P,V), grp(P) }.",
     [["dq", 2], ["grp", 1], ["e", 1]], ["grp(1)", "grp(2)", "dq(1,1)", "dq(1,3)", "dq(2,2)", "e(1)"], ["minmax_chains"]),
    ("math", "{ a ; b }.\nr :- X = #sum { 1,a : a }, Y = #sum { 1,b : b ; 1,__agg(0) : e(1) }, X+Y = 2.",
     [["e", 1]], ["e(1)", "e(2)"], ["math"]),
    ("inline", "{ pe(V,Y) } :- dpe(V,Y).\nh(V,S) :- g(V), S = #sum { Y : pe(V,Y) }.\nfoo(X) :- X = #sum { S,V : h(V,S) ; 2,1,unique : e(1) }.",
     [["dpe", 2], ["g", 1], ["e", 1]], ["g(1)", "g(2)", "dpe(1,2)", "dpe(2,2)", "e(1)"], ["inline"]),
    ("minmax_cond", "{ q(P,V) } :- dq(P,V).\nr(P,M) :- grp(P), M = #min { V : q(P,V) }, ok(P,W) : cand(P,W).",
     [["dq", 2], ["grp", 1], ["ok", 2], ["cand", 2], ["e", 1]],
     ["grp(1)", "grp(2)", "dq(1,5)", "dq(2,5)", "cand(1,3)", "ok(1,3)", "e(1)"], ["minmax_chains"]),
    ("inline_objective", "{ buy(P,I) } :- offer(P,I).\ntotal(P,S) :- person(P), S = #sum { C,I : buy(P,I), cost(I,C) }.\n"
                         "#minimize { S@1,P : total(P,S) }.",
     [["offer", 2], ["person", 1], ["cost", 2], ["e", 1]],
     ["person(1)", "person(2)", "offer(1,1)", "offer(1,2)", "offer(2,1)", "cost(1,2)", "cost(2,3)", "e(1)"], ["inline"]),
    ("unused_copy", "b(X,Y) :- db(X,Y), not e(X).\nc(X,Y) :- b(X,Y).\n:- c(X,X).\nd(X) :- c(X,_).",
     [["db", 2], ["e", 1]], ["db(1,2)", "db(2,2)", "db(2,1)", "e(1)"], ["unused"]),
    ("normalize", "a :- 1 { p(X,_) : q(X) ; p(_,anon__ngo) }.\nb(AUX) :- q(AUX), 1 { p(AUX,_) }.",
     [["p", 2], ["q", 1], ["e", 1]], ["p(1,2)", "p(2,anon__ngo)", "q(1)", "q(2)", "e(1)"], []),
]

INVENTED_VARS = ["AUX", "AUX0", "X0", "__NEXT", "__PREV", "P", "N", "B", "X", "L", "G0", "G1", "__AUX_0", "__AUX_1",
                 "__VAR__max_0_2", "L0", "Y0"]
NONRULE = ["#const k = 1.", "#show e/1.", "#external ext(X) : e(X).", "#defined undefd/1.", "#heuristic e(X) : e(X). [1,true]",
           "#project e/1.", "#show f(X) : e(X).", "#edge (X,Y) : e(X), e(Y).", "#program other(t).", "#program base."]


def invented(name, prog, inp, traits):
    """run the trigger once and return the invented head predicates (name, arity) and invented variable names"""
    os.environ["NGO_VERIF"] = "1"
    from vt.run import run_optimize

    rec = run_optimize(prog, inp, [], traits, trace=False)
    if rec["status"] != "ok":
        return [], []
    src = parse(prog)
    voc = vocabulary(src)
    heads: set = set()
    for s in rec["result"]:
        if s.ast_type == ASTType.Rule:
            heads |= vocabulary([s.head])
    newpreds = sorted(p for p in heads if p not in voc)
    srcvars = set(re.findall(r"\b(_*[A-Z][A-Za-z0-9_]*)\b", prog))
    resvars = set(re.findall(r"(?<![A-Za-z0-9_])(_*[A-Z][A-Za-z0-9_]*)\b", rec["result_text"]))
    return newpreds, sorted(resvars - srcvars)


def attack_statements(pred) -> str:
    """the source additionally uses (name, arity) as an ordinary predicate, defined from the input e/1 and observed by zz"""
    name, arity = pred
    args = ",".join(["X"] * arity)
    atom = f"{name}({args})" if arity else name
    body = "e(X)" if arity else "e(1)"
    return f"{atom} :- {body}.\nzz_{arity}({args or '1'}) :- {atom}, not e(3)."


def attack_statements_other(pred) -> list[tuple[str, str]]:
    """the source uses the name only OUTSIDE of rule bodies and heads of ordinary atoms: classically negated, in the
    condition of a #show term, as #external atom"""
    name, arity = pred
    args = ",".join(["X"] * arity)
    atom = f"{name}({args})" if arity else name
    body = "e(X)" if arity else "e(1)"
    return [("classical", f"-{atom} :- {body}."),
            ("show_body", f"#show zz(X) : {atom}, e(X)." if arity else f"#show zz : {atom}."),
            ("external", f"#external {atom} : {body}. zz_{arity}({args or '1'}) :- {atom}.")]


def rename_var(prog: str, old: str, new: str) -> str:
    return re.sub(rf"(?<![A-Za-z0-9_]){re.escape(old)}(?![A-Za-z0-9_])", new, prog)


def jobs(tier: str):
    quick = tier == "quick"
    import logging

    logging.disable(logging.CRITICAL)
    for name, prog, inp, universe, own in TRIGGERS:
        cfg_traits = [own, TRAITS] if own else [[], TRAITS]
        if not quick:
            cfg_traits.append(DEFAULT)

        removable = {"unused": {("b", 2)}, "inline": {("h", 2)}, "unused_same_name": {("p", 2), ("p", 3)},
                     "inline_objective": {("total", 2)}, "unused_copy": {("b", 2), ("c", 2)}}.get(name, set())

        def cfgs(i=inp, text=None):
            # everything the (attacked) source derives is an output, except what the trigger is about removing
            prg = parse(text if text is not None else prog)
            heads: set = set()
            for s in prg:
                if s.ast_type == ASTType.Rule:
                    heads |= vocabulary([s.head])
            out = [list(p) for p in sorted(heads - removable - {tuple(x) for x in i})]
            return [config(t, i, out, orc("inout", costs=True, multiset=True)) for t in cfg_traits]

        meta = {"trigger": name}
        checks = ["semantic", "interface"]
        yield job("C07/base", prog, universe, cfgs(), checks=checks, meta=dict(meta, attack="none"))
        if removable:
            # the predicate the pass would remove is a DECLARED output (explicitly, and through #show + auto detection):
            # it has to keep its name, arity and atoms
            keep_out = [list(p) for p in sorted(removable)]
            yield job("C07/keep", prog, universe,
                      [config(t, inp, keep_out, orc("inout", costs=True, multiset=True)) for t in cfg_traits],
                      checks=checks, meta=dict(meta, attack="removable predicate declared as output"))
            shown = prog + "\n" + " ".join(f"#show {n}/{a}." for n, a in sorted(removable))
            yield job("C07/keep", shown, universe,
                      [config(t, "auto", "auto", orc("inout", costs=True, multiset=True)) for t in cfg_traits],
                      checks=checks, meta=dict(meta, attack="removable predicate shown, declarations auto-detected"))
        preds_all: list = []
        vars_all: list = []
        for t in cfg_traits:
            ps, vs = invented(name, prog, inp, t)
            preds_all += [p for p in ps if p not in preds_all]
            vars_all += [v for v in vs if v not in vars_all]
        # vocabulary attacks: the source uses each invented predicate name (same arity, and arity +-1) itself
        attack_preds = []
        for pn, ar in preds_all:
            for a in {ar, max(0, ar - 1), ar + 1}:
                if (pn, a) not in attack_preds:
                    attack_preds.append((pn, a))
        for p in attack_preds:
            yield job("C07/pred", prog + "\n" + attack_statements(p), universe, cfgs(text=prog + "\n" + attack_statements(p)), checks=checks,
                      meta=dict(meta, attack=f"pred {p[0]}/{p[1]}"))
        for p in [x for x in attack_preds if x in preds_all]:
            for kind, text in attack_statements_other(p):
                yield job("C07/pred_other", prog + "\n" + text, universe, cfgs(text=prog + "\n" + text), checks=checks,
                          meta=dict(meta, attack=f"{kind} {p[0]}/{p[1]}"))
        if not quick:
            for p1, p2 in combinations([p for p in attack_preds if p in preds_all], 2):
                yield job("C07/pred2", prog + "\n" + attack_statements(p1) + "\n" + attack_statements(p2), universe,
                          cfgs(text=prog + "\n" + attack_statements(p1) + "\n" + attack_statements(p2)),
                          checks=checks, meta=dict(meta, attack=f"preds {p1} {p2}"))
        # variable attacks: rename each source variable to each invented / hard-wired variable name
        srcvars = sorted(set(re.findall(r"(?<![A-Za-z0-9_])([A-Z][A-Za-z0-9_]*)\b", prog)))
        for new in sorted(set(vars_all + INVENTED_VARS)):
            for old in srcvars:
                if new in srcvars:
                    continue
                yield job("C07/var", rename_var(prog, old, new), universe, cfgs(text=rename_var(prog, old, new)), checks=checks,
                          meta=dict(meta, attack=f"var {old}->{new}"))
        # layout attacks: everything on one line, shifted by k lines, blank lines between statements
        one = " ".join(prog.split("\n"))
        yield job("C07/layout", one, universe, cfgs(), checks=checks, meta=dict(meta, attack="one line"))
        yield job("C07/layout", "\n\n\n" + prog.replace("\n", "\n\n"), universe, cfgs(), checks=checks,
                  meta=dict(meta, attack="shifted"))
        yield job("C07/layout", one + "\n" + rename_layout_copy(one), universe, cfgs(text=one + "\n" + rename_layout_copy(one)), checks=checks,
                  meta=dict(meta, attack="two copies on two lines"))
        yield job("C07/layout", one + " " + rename_layout_copy(one), universe, cfgs(text=one + " " + rename_layout_copy(one)), checks=checks,
                  meta=dict(meta, attack="two copies on one line"))
        # pass-through: non-rule statements interleaved, must come out verbatim and in order
        lines = prog.split("\n")
        mixed = []
        for i, line in enumerate(lines):
            mixed.append(NONRULE[(2 * i) % len(NONRULE)])
            mixed.append(line)
            mixed.append(NONRULE[(2 * i + 1) % len(NONRULE)])
        mixed.append("#program base.")
        yield job("C07/passthrough", "\n".join(mixed[:-1]), universe + ["e(2)"],
                  [config(t, inp + [["e", 1]] if ["e", 1] not in inp else inp, [], VOC) for t in cfg_traits],
                  checks=["interface"], meta=dict(meta, attack="non-rule statements"))
        # declared but absent interface predicates with names ngo would pick
        for p in preds_all[:4]:
            extra_in = inp + [[p[0], p[1]]]
            dcfgs = []
            for c in cfgs(i=extra_in):
                c = dict(c)
                # compared on the real interface; the clash itself is the structural oracle's business
                c["oracle"] = orc("preds", costs=True, multiset=True, preds=[list(x) for x in c["inp"] if x[0] != p[0]] + c["out"])
                c["out"] = c["out"] + [[p[0], p[1] + 1]]
                dcfgs.append(c)
            yield job("C07/decl", prog, universe, dcfgs, checks=checks, meta=dict(meta, attack=f"declared {p}"))


def rename_layout_copy(text: str) -> str:
    """a second copy of the program over primed predicates (so both copies trigger the same passes independently)"""
    return re.sub(r"(?<![A-Za-z0-9_#])([a-z][A-Za-z0-9_]*)(?=\()", lambda m: m.group(1) + "_c", text).replace(
        "{ a ; b }", "{ a_c ; b_c }").replace("a_c :- 1", "a_c2 :- 1")


def main(tier: str, seed: int) -> int:
    rule = ("trigger programs of every name-inventing pass x attacks: the source itself uses each predicate name ngo "
            "invents for it (found by running the trigger; same arity and +-1; thorough: all pairs), each source variable "
            "renamed to each invented / hard-wired variable name, layouts (one line, shifted, two copies on one / two "
            "lines), interleaved non-rule statements, declared-but-absent interface predicates with invented names; "
            "oracles: multiset equality on voc(P) with costs for all instances; inputs get no new defining rule; non-rule "
            "statements verbatim and in order; declared predicates keep name/arity. non-trivial = a pass changed the "
            "program and the outcome varies")
    bounds = {"triggers": len(TRIGGERS), "invented_variable_names": len(INVENTED_VARS), "nonrule_statements": len(NONRULE)}
    return generic.family_main(PROP, tier, seed, jobs(tier), rule, bounds)


def replay(path: str) -> int:
    return generic.replay(PROP, path)
