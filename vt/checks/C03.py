"""C03: optimize always returns"""

from vt.checks import generic
from vt.families import C03 as fam

PROP = "C03"


def main(tier: str, seed: int) -> int:
    rule = ("construct zoo: every single statement x trait configurations x 4 declarations, every pair (thorough: and "
            "triples of a 20-statement core) and the frozen test-suite inputs; oracle: optimize returns a list, no "
            "exception, no lasso in the outer fixpoint loop (AST-equal state revisited), <= 30 iterations, <= 120 s CPU. "
            "non-trivial = some pass changed the program")
    bounds = {"zoo_singles": len(fam.singles()), "configs_single": 12 if tier == "quick" else 512,
              "declarations": 4, "corpus": len(fam.corpus()), "iter_cap": 30, "cpu_limit_s": 120}
    return generic.family_main(PROP, tier, seed, fam.jobs(tier), rule, bounds)


def replay(path: str) -> int:
    return generic.replay(PROP, path)
