"""C18: auto-detected input/output predicates (E6 position explorer)"""

from __future__ import annotations

import json
import os
import time
from itertools import combinations

from vt import driver
from vt.common import VERIF, h, parse

PROP = "C18"

# name, statement, in_rule_or_objective, positive_head, body_mentions_t (only for positive heads), shown
POSITIONS = [
    ("fact", "t(1).", True, True, False, False),
    ("head", "t(X) :- x(X).", True, True, False, False),
    ("fact_pool", "t(1;2).", True, True, False, False),
    ("head_pool", "t(X;X+1) :- x(X).", True, True, False, False),
    ("body_pool", "a :- t(1;2).", True, False, None, False),
    ("body_neg_pool", "a :- x(X), not t(X;X+1).", True, False, None, False),
    ("choice_pool", "{ t(1;2) }.", True, True, False, False),
    ("head_neg", "not t(X) :- x(X).", True, False, None, False),
    ("choice_lit", "{ t(X) : x(X) }.", True, True, False, False),
    ("choice_cond", "{ a(X) : t(X) }.", True, False, None, False),
    ("disj_lit", "t(X) ; b(X) :- x(X).", True, True, False, False),
    ("disj_cond", "a(X) : t(X) ; b :- x(1).", True, False, None, False),
    ("hagg_sum_lit", "1 #sum { 1,X : t(X) : x(X) }.", True, True, False, False),
    ("hagg_count_lit", "1 #count { X : t(X) : x(X) }.", True, True, False, False),
    ("hagg_min_lit", "#min { X : t(X) : x(X) } 2.", True, True, False, False),
    ("hagg_max_lit", "#max { X : t(X) : x(X) } 2.", True, True, False, False),
    ("hagg_sum_cond", "1 #sum { 1,X : a(X) : t(X) }.", True, False, None, False),
    ("hagg_count_cond", "1 #count { X : a(X) : t(X) }.", True, False, None, False),
    ("hagg_min_cond", "#min { X : a(X) : t(X) } 2.", True, False, None, False),
    ("oldstyle_bounds", "1 { t(X) : x(X) } 2.", True, True, False, False),
    ("oldstyle_body_rule", "1 { t(X) : x(X) } 2 :- x(1).", True, True, False, False),
    ("body_pos", "a :- t(X).", True, False, None, False),
    ("body_neg", "a :- x(X), not t(X).", True, False, None, False),
    ("body_dneg", "a :- x(X), not not t(X).", True, False, None, False),
    ("constraint", ":- t(1).", True, False, None, False),
    ("condlit_head", "a :- t(X) : x(X).", True, False, None, False),
    ("condlit_cond", "a :- x(X) : t(X).", True, False, None, False),
    ("bagg_sum", "a :- #sum { X : t(X) } > 0.", True, False, None, False),
    ("bagg_count", "a :- #count { X : t(X) } > 0.", True, False, None, False),
    ("bagg_min", "a :- #min { X : t(X) } > 0.", True, False, None, False),
    ("bagg_max", "a :- #max { X : x(X), not t(X) } > 0.", True, False, None, False),
    ("bagg_old", "a :- 1 { t(X) }.", True, False, None, False),
    ("weak", ":~ t(X). [X@1]", True, False, None, False),
    ("minimize", "#minimize { X : t(X) }.", True, False, None, False),
    ("maximize_neg", "#maximize { X : x(X), not t(X) }.", True, False, None, False),
    ("weak_condlit", ":~ x(X) : t(X). [1@1]", True, False, None, False),
    ("self_def", "t(X) :- t(X-1), x(X).", True, True, True, False),
    ("self_def_neg", "t(X) :- x(X), not t(X+1).", True, True, True, False),
    ("self_choice", "{ t(X) } :- t(X-1), x(X).", True, True, True, False),
    ("choice_body", "{ a(X) } :- t(X).", True, False, None, False),
    ("head_dneg", "not not t(X) :- x(X).", True, False, None, False),
    ("choice_2nd_elem", "{ a(X) : x(X); t(X) : x(X) }.", True, True, False, False),
    ("choice_2nd_cond", "{ a(X) : x(X); b(X) : t(X) }.", True, False, None, False),
    ("disj_2nd_cond", "b ; a(X) : t(X) :- x(1).", True, False, None, False),
    ("disj_2nd_lit", "b ; t(X) : x(X) :- x(1).", True, True, False, False),
    ("hagg_2nd_elem", "1 #sum { 1,X : a(X) : x(X); 1,X : t(X) : x(X) }.", True, True, False, False),
    ("hagg_2nd_cond", "1 #sum { 1,X : a(X) : x(X); 2,X : b(X) : t(X) }.", True, False, None, False),
    ("hagg_neg_lit", "1 #sum { 1,X : not t(X) : x(X) }.", True, False, None, False),
    ("hagg_body", "1 #sum { 1,X : a(X) : x(X) } :- t(1).", True, False, None, False),
    ("disj_body", "a ; b :- t(1).", True, False, None, False),
    ("choice_body_agg", "{ a } :- #count { X : t(X) } > 0.", True, False, None, False),
    ("bagg_2nd_elem", "a :- #sum { X : x(X); X,1 : t(X) } > 0.", True, False, None, False),
    ("bagg_2nd_lit", "a :- #sum { X : x(X), t(X) } > 0.", True, False, None, False),
    ("bagg_neg_agg", "a :- not #count { X : t(X) } > 0.", True, False, None, False),
    ("minimize_2nd_elem", "#minimize { X : x(X); X,1 : t(X) }.", True, False, None, False),
    ("minimize_2nd_lit", "#minimize { X@2 : x(X), t(X) }.", True, False, None, False),
    ("weak_agg", ":~ #count { X : t(X) } > 0. [1@1]", True, False, None, False),
    ("self_def_agg", "t(X) :- x(X), #count { Y : t(Y) } < 1.", True, True, True, False),
    ("self_def_condlit", "t(X) :- x(X), a : t(X-1).", True, True, True, False),
    ("self_hagg", "1 #sum { 1,X : t(X) : x(X) } :- t(0).", True, True, True, False),
    ("self_disj", "t(X) ; b :- x(X), not t(X+1).", True, True, True, False),
    ("show_term_2nd_lit", "#show f(X) : x(X), t(X).", False, False, None, "tx"),
    ("show_term_t_cond_t", "#show t(X) : t(X).", False, False, None, True),
    ("edge", "#edge (X,X) : t(X).", False, False, None, False),
    ("project_atom", "#project t(X) : x(X).", False, False, None, False),
    ("show_sig", "#show t/1.", False, False, None, True),
    ("show_term", "#show f(X) : t(X).", False, False, None, True),
    ("show_term_neg", "#show f(X) : x(X), not t(X).", False, False, None, "tx"),
    ("show_term_condlit", "#show f : t(X) : x(X).", False, False, None, "tx"),
    ("show_term_condlit_cond", "#show f : x(X) : t(X).", False, False, None, "tx"),
    ("show_term_condlit_neg", "#show f : not t(X) : x(X).", False, False, None, "tx"),
    ("show_term_agg", "#show f : #count { X : t(X) } > 0.", False, False, None, True),
    ("show_term_oldagg", "#show f(X) : x(X), 1 { t(X) }.", False, False, None, "tx"),
    ("show_term_dneg", "#show f(X) : x(X), not not t(X).", False, False, None, "tx"),
    ("show_term_is_t", "#show t(X) : x(X).", False, False, None, "x"),
    ("show_term_pool", "#show f(X) : t(X;X+1).", False, False, None, True),
    ("show_term_pool_cond", "#show f : x(X) : t(X;1).", False, False, None, "tx"),
    ("show_term_pool_agg", "#show f(X) : x(X), 1 { t(X;2) }.", False, False, None, "tx"),
    ("show_term_is_t_pool", "#show t(X;1) : x(X).", False, False, None, "x"),
    ("show_nothing", "#show.", False, False, None, False),
    ("external", "#external t(X) : x(X).", False, False, None, False),
    ("project_sig", "#project t/1.", False, False, None, False),
    ("heuristic", "#heuristic t(X) : x(X). [1,true]", False, False, None, False),
    ("defined", "#defined t/1.", False, False, None, False),
]


def expected(pos: tuple) -> dict:
    occurs = any(p[2] for p in pos)
    pos_head = any(p[3] for p in pos)
    plain_def = any(p[3] and p[4] is False for p in pos)
    shown = any(p[5] in (True, "tx") for p in pos)
    shown_x = any(p[5] in ("tx", "x") for p in pos)
    return {"must_in": occurs and not pos_head, "must_not_in": plain_def, "shown": shown, "shown_x": shown_x}


def main(tier: str, seed: int) -> int:
    os.environ["NGO_VERIF"] = "1"
    import logging

    logging.disable(logging.CRITICAL)
    from ngo import auto_detect_input, auto_detect_output

    t0 = time.time()
    kmax = 2 if tier == "quick" else 3
    violations = []
    states = set()
    programs = 0
    nontrivial = 0
    samples = []
    outcomes = set()
    for k in range(1, kmax + 1):
        for pos in combinations(POSITIONS, k):
            prog = "x(1).\n" + "\n".join(p[1] for p in pos)
            programs += 1
            try:
                prg = parse(prog)
            except RuntimeError as exc:
                violations.append((prog, f"harness: unparsable {exc}"))
                continue
            exp = expected(pos)
            try:
                got_in = auto_detect_input(prg)
                got_out = auto_detect_output(prg)
            except BaseException as exc:  # pylint: disable=broad-except
                violations.append((prog, f"exception {type(exc).__name__}: {exc}"))
                continue
            ins = {(p.name, p.arity) for p in got_in}
            outs = [(p.name, p.arity) for p in got_out]
            states.add(h(prog))
            outcomes.add((("t", 1) in ins, tuple(outs)))
            if exp["must_in"] or exp["must_not_in"] or exp["shown"]:
                nontrivial += 1
            errs = []
            if exp["must_in"] and ("t", 1) not in ins:
                errs.append("t/1 occurs in a rule/objective, is never a positive head atom, but is not detected as input")
            if exp["must_not_in"] and ("t", 1) in ins:
                errs.append("t/1 has a defining statement whose body does not mention it, but is detected as input")
            if ("x", 1) in ins:
                errs.append("x/1 is defined by a fact but detected as input")
            want_out = ([("t", 1)] if exp["shown"] else []) + ([("x", 1)] if exp["shown_x"] else [])
            if outs != want_out:
                errs.append(f"auto_detect_output = {outs}, expected exactly {want_out} (sorted, duplicate-free)")
            if len(samples) < 4 or (programs % 211 == 0 and len(samples) < 8):
                samples.append({"program": prog, "input": sorted(ins), "output": outs, "expected": exp})
            for e in errs:
                violations.append((prog, e))
    code = 0
    groups = {}
    for prog, err in violations:
        groups.setdefault(err.split(",")[0][:60], []).append(prog)
    for key, progs in sorted(groups.items()):
        progs.sort(key=len)
        d = os.path.join(VERIF, "replays", PROP)
        os.makedirs(d, exist_ok=True)
        path = os.path.join(d, h(progs[0] + key)[:12] + ".json")
        json.dump({"property": PROP, "program": progs[0], "error": key, "count": len(progs)}, open(path, "w"), indent=1)
        print(f"VIOLATION property={PROP} replay={path}")
        print(f"  {key} [{len(progs)} programs]")
        print("  program: " + progs[0].replace("\n", " | "))
        code = 1
    ev = {"property_id": PROP, "tier": tier, "seed": seed, "level": "model_checking",
          "coverage": {"states": len(states), "transitions": programs * 2, "traces_validated_against_impl": programs,
                       "evaluations": programs, "distinct_nontrivial": nontrivial,
                       "rule": f"a probe predicate t/1 placed in every subset of <= {kmax} of {len(POSITIONS)} syntactic "
                               "positions; the generator knows for every position whether it is a rule/objective occurrence, "
                               "a positive head atom, a defining statement not mentioning t, or a #show; the three clauses "
                               "of the property are checked literally. non-trivial = some clause constrains t",
                       "samples": samples, "programs": programs, "positions": len(POSITIONS), "distinct_outcomes": len(outcomes),
                       "exhaustive": True, "bounds": {"positions_per_program": kmax}},
          "assumptions": ["ground truth of each position is fixed by construction of the generator"],
          "wall_s": round(time.time() - t0, 2), "violations": len(violations)}
    os.makedirs(os.path.join(VERIF, "evidence"), exist_ok=True)
    json.dump(ev, open(os.path.join(VERIF, "evidence", f"{PROP}.json"), "w"), indent=1, default=str)
    print(f"{PROP} tier={tier}: programs={programs} nontrivial={nontrivial} outcomes={len(outcomes)} "
          f"violations={len(violations)} wall={ev['wall_s']}s")
    return code


def replay(path: str) -> int:
    import logging

    logging.disable(logging.CRITICAL)
    from ngo import auto_detect_input, auto_detect_output

    body = json.load(open(path))
    prg = parse(body["program"])
    print("program:", body["program"].replace("\n", " | "))
    print("input:", [str(p) for p in auto_detect_input(prg)], "output:", [str(p) for p in auto_detect_output(prg)])
    print("recorded error:", body["error"])
    # re-evaluate with the explorer's oracle on this single program
    names = [p for p in POSITIONS if p[1] in body["program"].split("\n")]
    exp = expected(tuple(names))
    ins = {(p.name, p.arity) for p in auto_detect_input(prg)}
    outs = [(p.name, p.arity) for p in auto_detect_output(prg)]
    bad = (exp["must_in"] and ("t", 1) not in ins) or (exp["must_not_in"] and ("t", 1) in ins) or \
        (outs != ([("t", 1)] if exp["shown"] else []) + ([("x", 1)] if exp["shown_x"] else [])) or ("x", 1) in ins
    if bad:
        print(f"VIOLATION property={PROP} replay={path}")
        return 1
    print("replay: no violation")
    return 0
