"""C20: generated domain and order predicates describe the real domain"""

from __future__ import annotations

from vt.checks import generic
from vt.common import AUX_ONLY
from vt.families import compose
from vt.families.base import config, job, orc

PROP = "C20"
VOC = orc("voc", costs=True, multiset=True)

# definer slot for the approximated predicate: how p/2 is defined
DEFINERS = [
    ("choice", "{ p(G,V) } :- dp(G,V).", [["dp", 2]]),
    ("choice_cond", "{ p(G,V) : dp(G,V) } :- g(G).", [["dp", 2], ["g", 1]]),
    ("headagg", "1 #sum { 1,V : p(G,V) : dp(G,V) } 2 :- g(G).", [["dp", 2], ["g", 1]]),
    ("disjunction", "p(G,V) ; np(G,V) :- dp(G,V).", [["dp", 2]]),
    ("negation", "{ on(G) } :- g(G). { p(G,V) } :- dp(G,V), not on(G).", [["dp", 2], ["g", 1]]),
    ("negation_static", "{ p(G,V) } :- dp(G,V), not blk(V).", [["dp", 2], ["blk", 1]]),
    ("two_rules", "{ p(G,V) } :- dp(G,V). p(G,V) :- extra(G,V).", [["dp", 2], ["extra", 2]]),
    ("derived", "{ s(G,V) } :- dp(G,V). p(G,V) :- s(G,V), g(G).", [["dp", 2], ["g", 1]]),
    ("interval", "{ p(G,V) : V = 1..2 } :- g(G).", [["g", 1]]),
    ("pool", "{ p(G,(1;3)) } :- g(G).", [["g", 1]]),
    ("arith", "{ p(G,V+1) } :- dp(G,V).", [["dp", 2]]),
    ("recursion", "{ p(G,V) } :- dp(G,V). p(G,W) :- p(G,V), nxt(V,W).", [["dp", 2], ["nxt", 2]]),
    ("cond_lit", "{ p(G,V) } :- dp(G,V), g(H) : dp(H,V).", [["dp", 2], ["g", 1]]),
    ("cond_lit_choice", "{ c(G,Y) : dp(G,Y) }. p(G,V) :- dp(G,V), c(G,Y) : blk(Y).", [["dp", 2], ["blk", 1]]),
    ("cond_lit_choice2", "{ c(G) } :- g(G). { p(G,V) } :- dp(G,V), c(H) : g(H), H < G.", [["dp", 2], ["g", 1]]),
    ("chain_of_domains", "{ c(G,V) } :- dp(G,V). d2(G,V) :- c(G,V), g(G). { p(G,V) } :- d2(G,V).", [["dp", 2], ["g", 1]]),
    ("agg_choice", "{ c(G) } :- g(G). { p(G,V) } :- dp(G,V), 1 <= #sum { 1,H : c(H) }.", [["dp", 2], ["g", 1]]),
    ("topdown_chain", "{ p(G,V) } :- c2(G,V). c2(G,V) :- c1(G,V). c1(G,V) :- dp(G,V), on(G). { on(G) } :- g(G).",
     [["dp", 2], ["g", 1]]),
    ("bottomup_chain", "{ on(G) } :- g(G). c1(G,V) :- dp(G,V), on(G). c2(G,V) :- c1(G,V). { p(G,V) } :- c2(G,V).",
     [["dp", 2], ["g", 1]]),
    ("topdown_chain3", "{ p(G,V) } :- c3(G,V). c3(G,V) :- c2(G,V). c2(G,V) :- c1(G,V), g(G). c1(G,V) :- dp(G,V), not off(G). "
                       "{ off(G) } :- g(G).", [["dp", 2], ["g", 1]]),
    ("mixed_order", "c2(G,V) :- c1(G,V). { p(G,V) } :- c2(G,V). { on(G) } :- g(G). c1(G,V) :- dp(G,V), on(G).",
     [["dp", 2], ["g", 1]]),
    ("dneg", "{ on(G) } :- g(G). { p(G,V) } :- dp(G,V), not not on(G).", [["dp", 2], ["g", 1]]),
    # several defining rules, the complex one NOT first (every rule has to be screened)
    ("agg_second_rule", "{ c(G) } :- g(G). p(G,V) :- extra(G,V). { p(G,V) } :- dp(G,V), #count { H : c(H) } <= 1.",
     [["dp", 2], ["g", 1], ["extra", 2]]),
    ("aggassign_second_rule", "{ c(G) } :- g(G). p(G,V) :- extra(G,V). p(G,V) :- dp(G,_), V = #sum { H : c(H) }.",
     [["dp", 2], ["g", 1], ["extra", 2]]),
    ("rec_second_rule", "{ p(G,V) } :- dp(G,V). p(G,V) :- extra(G,V). p(G,W) :- p(G,V), nxt(V,W).",
     [["dp", 2], ["nxt", 2], ["extra", 2]]),
    ("arith_second_rule", "p(G,V) :- extra(G,V). { p(G,V*2) } :- dp(G,V).", [["dp", 2], ["extra", 2]]),
    ("cond_second_rule", "{ c(G,Y) : dp(G,Y) }. p(G,V) :- extra(G,V). p(G,V) :- dp(G,V), c(G,Y) : blk(Y).",
     [["dp", 2], ["blk", 1], ["extra", 2]]),
    ("same_name_arity", "{ p(X) : dp(X,_) }. { p(G,V) } :- dp(G,V).", [["dp", 2]]),
    ("same_name_arity_rev", "{ p(G,V) } :- dp(G,V). { p(X) : dp(X,_) }. u1(X) :- p(X).", [["dp", 2]]),
    ("same_name_derived", "{ p(X) : dp(X,_) }. { c(G,V) } :- dp(G,V). p(G,V) :- c(G,V), g(G).", [["dp", 2], ["g", 1]]),
    ("neg_second_rule", "{ on(G) } :- g(G). p(G,V) :- extra(G,V). { p(G,V) } :- dp(G,V), not on(G).",
     [["dp", 2], ["g", 1], ["extra", 2]]),
]

# users that make symmetry / minmax_chains / sum_chains emit domain and order predicates for p
USERS = [
    ("symmetry_count", ["symmetry"], ":- p(G,A), p(G,B), A != B."),
    ("symmetry_rule", ["symmetry"], "two(G) :- p(G,A), p(G,B), A < B."),
    ("symmetry_agg", ["symmetry"], "n(N) :- N = #count { G : p(G,A), p(G,B), A != B }."),
    ("max", ["minmax_chains"], "m(G,X) :- g(G), X = #max { V : p(G,V) }."),
    ("min", ["minmax_chains"], "m(G,X) :- g(G), X = #min { V : p(G,V) }."),
    ("max_nogrp", ["minmax_chains"], "m(X) :- X = #max { V : p(G,V) }."),
    ("max_bound", ["minmax_chains"], "m(G) :- g(G), #max { V : p(G,V) } <= 2."),
    ("sum_chain", ["sum_chains"], ":- g(G), 2 { p(G,V) }.\\na(S) :- S = #sum { V,G : p(G,V) }."),
]
AMO = [
    ("amo_choice", "{ p(G,V) : dp(G,V) } 1 :- g(G).", [["dp", 2], ["g", 1]]),
    ("amo_choice_neg", "{ on(G) } :- g(G). { p(G,V) : dp(G,V), not on(G) } 1 :- g(G).", [["dp", 2], ["g", 1]]),
    ("amo_choice_static_neg", "{ p(G,V) : dp(G,V), not blk(V) } 1 :- g(G).", [["dp", 2], ["g", 1], ["blk", 1]]),
    ("amo_derived", "{ s(G,V) } :- dp(G,V). { p(G,V) : s(G,V) } 1 :- g(G).", [["dp", 2], ["g", 1]]),
]
AMO_USERS = [
    ("sum", "a(S) :- S = #sum { V,G : p(G,V) }."),
    ("weak", ":~ p(G,V). [V@1,G]"),
    ("sum_grp", "a(G,S) :- g(G), S = #sum { V : p(G,V) }."),
]


def jobs(tier: str):
    universe = ["g(1)", "g(2)", "dp(1,1)", "dp(1,3)", "dp(2,3)", "dp(2,-1)"]

    def uni(inp):
        u = list(universe)
        names = {i[0] for i in inp}
        if "blk" in names:
            u.append("blk(3)")
        if "extra" in names:
            u.append("extra(1,2)")
        if "nxt" in names:
            u.append("nxt(1,2)")
        if "g" not in names:
            u = [x for x in u if not x.startswith("g(")]
        if "dp" not in names:
            u = [x for x in u if not x.startswith("dp(")]
        return u

    for dname, dtext, dinp in DEFINERS:
        for uname, traits, utext in USERS:
            inp = [list(x) for x in dinp]
            if "g(G)" in utext and ["g", 1] not in inp:
                inp.append(["g", 1])
            prog = dtext + "\n" + utext.replace("\\n", "\n")
            cfgs = [config(traits, inp, [], VOC), config(AUX_ONLY, inp, [], VOC)]
            u = uni(inp)
            yield job("C20", prog, u, cfgs, checks=["semantic", "domains"], meta={"definer": dname, "user": uname})
    for aname, atext, ainp in AMO:
        for uname, utext in AMO_USERS:
            prog = atext + "\n" + utext
            cfgs = [config(["sum_chains"], ainp, [], VOC), config(AUX_ONLY, ainp, [], VOC)]
            yield job("C20/amo", prog, uni(ainp), cfgs, checks=["semantic", "domains"], meta={"definer": aname, "user": uname})
    # every program of the C11/C12/C13 families on which domain predicates are emitted
    def mk(j, c0):
        return [config(c0["traits"], c0["inp"], [], VOC)]

    yield from compose.remap(compose.family_jobs(["C11", "C12", "C13"], tier, variants=30), "C20", mk, checks=("semantic", "domains"))


def main(tier: str, seed: int) -> int:
    rule = ("every program DEFINER (14 ways to define the approximated predicate) x USER that makes symmetry / "
            "minmax_chains / sum_chains emit domain, min, max, next predicates, at-most-one definitions x sum users, and "
            "every program of the C11/C12/C13 families; for every instance and every answer set of the RESULT: p(t) true "
            "=> dom_p(t) true; chain-encoded #min/#max values are domain values; domain/order predicates are identical in "
            "all answer sets of an instance; min/max/next are exactly the extremes and the covering relation of the sorted "
            "domain values per group (clingo's term order); additionally multiset equality with the source on voc(P). "
            "non-trivial = a pass changed the program and the outcome varies")
    bounds = {"definers": len(DEFINERS), "users": len(USERS), "amo": len(AMO) * len(AMO_USERS)}
    return generic.family_main(PROP, tier, seed, jobs(tier), rule, bounds)


def replay(path: str) -> int:
    return generic.replay(PROP, path)
