"""C15: inline"""

from vt.checks import generic
from vt.families import C15 as fam

PROP = "C15"


def main(tier: str, seed: int) -> int:
    rule = ("every program HELPER x {sum,sum+,count,min,max} x USER x declaration (helper neither/in OUT/in IN, empty "
            "OUT) and aggregate-weighted objectives, optimize(inline only), all subsets of the fact universe (equal "
            "weights in different groups), all answer sets; set equality of (answer set on IN u OUT, costs). "
            "non-trivial = inline changed the program and the outcome varies over instances")
    bounds = {"helpers": len(fam.HELPERS), "users": len(fam.USERS), "direct": len(fam.DIRECT), "functions": len(fam.FUNS)}
    return generic.family_main(PROP, tier, seed, generic.with_variants(fam.jobs(tier), tier), rule, dict(bounds, variants=True))


def replay(path: str) -> int:
    return generic.replay(PROP, path)
