"""C14: math"""

from vt.checks import generic
from vt.families import C14 as fam

PROP = "C14"


def main(tier: str, seed: int) -> int:
    kmax = 2 if tier == "quick" else 3
    rule = (f"every statement CONTEXT x BINDERS x {{1..{kmax}}}-subset of a 38-literal menu of comparisons and aggregates, "
            "optimize(math only), all subsets of an integer fact universe (negative, zero, positive), #const overrides, "
            "all answer sets; multiset equality on voc(P) with costs. non-trivial = math changed the statement and "
            "the outcome varies over instances")
    bounds = {"menu": len(fam.MENU), "literals": kmax, "binders": len(fam.BINDERS), "contexts": len(fam.CONTEXTS)}
    return generic.family_main(PROP, tier, seed, generic.with_variants(fam.jobs(tier), tier), rule, dict(bounds, variants=True))


def replay(path: str) -> int:
    return generic.replay(PROP, path)
