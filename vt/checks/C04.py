"""C04: the result is a valid, safe clingo program and its printed form is faithful"""

from __future__ import annotations

from vt.checks import generic
from vt.checks.C01 import slice_keep
from vt.common import DEFAULT, TRAITS
from vt.families import compose
from vt.families.base import config, job, orc
from vt.families.zoo import CONTEXT, IN0, THEORY, UNITS, ZOO

PROP = "C04"
NOORC = orc("out", costs=False, multiset=False)
ZOO_UNIVERSE = ["d(1)", "d(2)", "e(1)", "q(1,1)", "q(1,2)"]


def jobs(tier: str):
    quick = tier == "quick"

    def mk(j, c0):
        fam = j["family"].split("/")[0].split("~")[0]
        inp = c0["inp"]
        owner = compose.OWNER[fam]
        cfgs = [config(owner, inp, [], NOORC), config(TRAITS, inp, [], NOORC)]
        if not quick:
            cfgs.append(config(DEFAULT, inp, [], NOORC))
            cfgs.append(config(TRAITS, "auto", "auto", NOORC))
        return cfgs

    fams = ["C05", "C08", "C09", "C10", "C11", "C12", "C13", "C14", "C15", "C16"]
    yield from compose.remap(compose.family_jobs(fams, "quick", variants=12 if quick else 60), "C04", mk, checks=("valid",), keep=slice_keep("quick"))
    for name, prog, inp, out, universe, consts_menu in compose.CORPUS:
        cfgs = [config(t, inp, out, NOORC) for t in ([], DEFAULT, TRAITS)] + [config(TRAITS, "auto", "auto", NOORC)]
        yield compose.corpus_job(name, prog, inp, out, universe, consts_menu[0], cfgs, "C04/corpus", checks=("valid",))
    for stm in ZOO + UNITS + [THEORY[0] + "\n" + THEORY[1]]:
        prog = CONTEXT + "\n" + stm
        cfgs = [config(t, i, o, NOORC) for t in ([], DEFAULT, TRAITS) for (i, o) in ((IN0, []), ("auto", "auto"))]
        yield job("C04/zoo", prog, ZOO_UNIVERSE, cfgs, checks=("valid",), meta={"stm": stm})


def main(tier: str, seed: int) -> int:
    rule = ("every result of optimize for the family programs of C05,C08-C16 (owning trait, all traits), the composition "
            "corpus and the construct zoo (none, default, all): (1) every returned statement is accepted by "
            "ProgramBuilder.add and the program grounds on the whole fact universe without error, (2) the printed text "
            "is accepted by Control.add and grounds, (3) str(parse(str(s))) == str(s) for every statement, (4) all answer "
            "sets of all instances coincide for AST loading and text loading. Sources that clingo rejects are out of "
            "scope. non-trivial = some pass changed the program")
    bounds = {"families": 10, "zoo": len(ZOO) + len(UNITS) + 1, "corpus": len(compose.CORPUS)}
    return generic.family_main(PROP, tier, seed, jobs(tier), rule, bounds)


def replay(path: str) -> int:
    return generic.replay(PROP, path)
