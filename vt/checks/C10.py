"""C10: duplication"""

from vt.checks import generic
from vt.families import C10 as fam

PROP = "C10"


def main(tier: str, seed: int) -> int:
    rule = ("every program with a shared literal SET placed in two (three) statements, each in one CONTEXT (body, "
            "conditional literal, aggregate element, weak constraint, constraint) with an EXTRA literal and a variable "
            "RENAMING, optimize(duplication only), all subsets of the fact universe, all answer sets; multiset equality "
            "on voc(P) with costs. non-trivial = duplication changed the program and the outcome varies")
    bounds = {"sets": len(fam.SETS), "contexts": len(fam.CONTEXTS), "extras": len(fam.EXTRAS), "renamings": len(fam.RENAMES)}
    return generic.family_main(PROP, tier, seed, generic.with_variants(fam.jobs(tier), tier), rule, dict(bounds, variants=True))


def replay(path: str) -> int:
    return generic.replay(PROP, path)
