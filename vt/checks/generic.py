"""shared main()/replay() for family based checks"""

from __future__ import annotations

import json
import os
import time

from vt import driver
from vt import findings as fnd


def with_variants(jobs, tier: str):
    """the family plus the syntactic variants (vt/families/mutate.py) of its programs: all programs in the thorough
    tier, the sub-bounded slice (checks/C01.py:slice_keep) in the quick tier"""
    from itertools import chain  # pylint: disable=import-outside-toplevel

    from vt.checks.C01 import slice_keep  # pylint: disable=import-outside-toplevel
    from vt.families import mutate  # pylint: disable=import-outside-toplevel
    from vt.families.base import dedupe  # pylint: disable=import-outside-toplevel

    jobs = list(jobs)
    keep = slice_keep(tier)
    base = sorted((j for j in jobs if tier != "quick" or keep(j)), key=lambda j: j["id"])
    # evenly spaced sub-slices: <= VT_V1_CAP programs get the syntactic, <= VT_V2_CAP the semantic variants
    # (quick 200 / 60 of the slice, thorough 1500 / 150 of all programs)
    quick = tier == "quick"
    base1 = _spread(base, int(os.environ.get("VT_V1_CAP", "200" if quick else "1500")))
    base2 = _spread(base, int(os.environ.get("VT_V2_CAP", "60" if quick else "150")))
    return dedupe(chain(jobs, mutate.variants(base1), mutate.variants2(base2)))


def _spread(items: list, cap: int) -> list:
    if len(items) <= cap:
        return items
    return [items[(k * len(items)) // cap] for k in range(cap)]


def family_main(prop: str, tier: str, seed: int, jobs, rule: str, bounds: dict, post=None) -> int:
    t0 = time.time()
    rule += (" The family also contains the syntactic variants of its programs (statement order, literal order, negated / "
             "doubly negated aggregates and conditional literals, function / arithmetic tuple terms, mirrored comparisons, "
             "one-line layout) and the semantic variants (doubly negated literals, an extra definition / an input declaration for "
             "every derived predicate, alpha-renaming clashes, variable priorities, twin objectives) of a deterministic, evenly "
             "spaced sub-family (quick: <= 200 / 60 programs of the slice, thorough: <= 1500 / 150 of all programs).") if bounds.get(
        "variants") else ""
    agg = driver.Aggregate()
    driver.run_pool(jobs, seed, agg.add)
    extra = post(agg) if post else None
    return driver.finish(prop, tier, seed, agg, t0, rule, bounds, extra_violations=extra)


def replay(prop: str, path: str) -> int:
    """re-execute exactly one recorded case without any explorer"""
    os.environ["NGO_VERIF"] = "1"
    from vt.run import run_job  # pylint: disable=import-outside-toplevel

    with open(path, encoding="utf8") as f:
        body = json.load(f)
    job = body["job"]
    job["consts"] = [tuple(c) for c in job["consts"]]
    res = run_job(job)
    if res.get("rejected"):
        print(f"replay: source rejected by clingo: {res['rejected']}")
        return 2
    known = fnd.load(prop)
    code = 0
    for cres in res["configs"]:
        print("result:\n" + (cres.get("result_text") or "<none>"))
        for v in cres["violations"]:
            ent = fnd.match(known, prop, job, cres, v)
            brief = {k: v[k] for k in v if k not in ("before", "after", "canon", "bad_instances", "traceback")}
            if ent is not None:
                print(f"KNOWN-FINDING: property={prop} {ent['id']}: {ent['what']}")
                print(f"  {brief}")
                continue
            print(f"VIOLATION property={prop} replay={path}")
            print(f"  {brief}")
            code = 1
    if code == 0:
        print(f"replay: no (unlisted) violation of {prop} in {path}")
    return code
