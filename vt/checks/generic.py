"""shared main()/replay() for family based checks"""

from __future__ import annotations

import json
import os
import time

from vt import driver
from vt import findings as fnd


def family_main(prop: str, tier: str, seed: int, jobs, rule: str, bounds: dict, post=None) -> int:
    t0 = time.time()
    agg = driver.Aggregate()
    driver.run_pool(jobs, seed, agg.add)
    extra = post(agg) if post else None
    return driver.finish(prop, tier, seed, agg, t0, rule, bounds, extra_violations=extra)


def replay(prop: str, path: str) -> int:
    """re-execute exactly one recorded case without any explorer"""
    os.environ["NGO_VERIF"] = "1"
    from vt.run import run_job  # pylint: disable=import-outside-toplevel

    with open(path, encoding="utf8") as f:
        body = json.load(f)
    job = body["job"]
    job["consts"] = [tuple(c) for c in job["consts"]]
    res = run_job(job)
    if res.get("rejected"):
        print(f"replay: source rejected by clingo: {res['rejected']}")
        return 2
    known = fnd.load(prop)
    code = 0
    for cres in res["configs"]:
        print("result:\n" + (cres.get("result_text") or "<none>"))
        for v in cres["violations"]:
            ent = fnd.match(known, prop, job, cres, v)
            brief = {k: v[k] for k in v if k not in ("before", "after", "canon", "bad_instances", "traceback")}
            if ent is not None:
                print(f"KNOWN-FINDING: property={prop} {ent['id']}: {ent['what']}")
                print(f"  {brief}")
                continue
            print(f"VIOLATION property={prop} replay={path}")
            print(f"  {brief}")
            code = 1
    if code == 0:
        print(f"replay: no (unlisted) violation of {prop} in {path}")
    return code
