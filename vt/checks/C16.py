"""C16: projection splits derive exactly what the unsplit rule derived"""

from vt.checks import generic
from vt.families import C16 as fam

PROP = "C16"


def main(tier: str, seed: int) -> int:
    kmax = 3 if tier == "quick" else 4
    rule = (f"every rule HEAD x {{3..{kmax}}}-subset of the 16-literal body menu, optimize(projection only), all "
            "instances with <= 4 facts of the universe, all answer sets; multiset equality on voc(P); result must "
            "ground (unsafe result = violation). non-trivial = projection split the rule and the outcome varies")
    bounds = {"heads": len(fam.HEADS), "menu": len(fam.MENU), "literals": kmax, "max_facts": 4}
    return generic.family_main(PROP, tier, seed, generic.with_variants(fam.jobs(tier), tier), rule, dict(bounds, variants=True))


def replay(path: str) -> int:
    return generic.replay(PROP, path)
