"""C09: unused"""

from vt.checks import generic
from vt.families import C09 as fam

PROP = "C09"


def main(tier: str, seed: int) -> int:
    rule = ("every program PRODUCER x MID (copy rules) x CONSUMER, optimize(unused only) under OUT in {empty, consumer, "
            "mid, auto-detected}, all subsets of the fact universe, all answer sets; set equality of (answer set on "
            "IN u OUT or shown atoms, costs), hence satisfiability. non-trivial = unused changed the program and the "
            "outcome varies over instances")
    bounds = {"producers": len(fam.PRODUCERS), "mids": len(fam.MIDS), "consumers": len(fam.CONSUMERS), "outs": len(fam.OUTS)}
    return generic.family_main(PROP, tier, seed, generic.with_variants(fam.jobs(tier), tier), rule, dict(bounds, variants=True))


def replay(path: str) -> int:
    return generic.replay(PROP, path)
