"""generic driver: expand a family, run all jobs in a process pool, match findings, write evidence"""

from __future__ import annotations

import json
import multiprocessing as mp
import os
import random
import sys
import time
from collections import Counter, defaultdict
from typing import Callable, Iterable, Optional

from vt import findings as fnd
from vt.common import VERIF, h

NPROC = int(os.environ.get("VT_NPROC", "16"))


def _init_worker() -> None:
    os.environ["NGO_VERIF"] = "1"
    import logging  # pylint: disable=import-outside-toplevel

    logging.disable(logging.CRITICAL)
    import faulthandler, signal  # pylint: disable=import-outside-toplevel

    faulthandler.register(signal.SIGUSR1, all_threads=True)
    import resource  # pylint: disable=import-outside-toplevel

    lim = int(os.environ.get("VT_MEM_GB", "6")) * 1024**3
    resource.setrlimit(resource.RLIMIT_AS, (lim, lim))


def _run(job: dict) -> dict:
    from vt.run import run_job  # pylint: disable=import-outside-toplevel

    t0 = time.process_time()
    try:
        res = run_job(job)
    except BaseException as exc:  # pylint: disable=broad-except
        import traceback  # pylint: disable=import-outside-toplevel

        res = {"id": job["id"], "harness_error": "".join(traceback.format_exception(type(exc), exc, exc.__traceback__))}
    res["cpu"] = time.process_time() - t0
    res["job"] = job
    return res


class Aggregate:
    """everything a check run learns"""

    def __init__(self) -> None:
        self.jobs = 0
        self.rejected = 0
        self.executions = 0
        self.states: set = set()
        self.transitions = 0
        self.instances = 0
        self.pairs = 0
        self.excluded = 0
        self.outcomes: set = set()
        self.fired: Counter = Counter()
        self.nontrivial: set = set()
        self.violations: list = []  # (job, cfgres, violation)
        self.caps = 0
        self.harness_errors: list = []
        self.samples: list = []
        self.status: Counter = Counter()
        self.max_iterations = 0
        self.families: Counter = Counter()
        self.family_cpu: Counter = Counter()
        self.cpu = 0.0
        self.extra: dict = {}

    def add(self, res: dict) -> None:
        job = res["job"]
        self.jobs += 1
        self.cpu += res.get("cpu", 0.0)
        if "harness_error" in res:
            self.harness_errors.append((job, res["harness_error"]))
            return
        if res["rejected"]:
            self.rejected += 1
            if res.get("cap"):
                self.caps += 1
            return
        self.families[job["family"]] += 1
        self.family_cpu[job["family"].split("/")[0].split("~")[0] + "/" + job["family"].split("/")[-1]] += res.get("cpu", 0.0)
        self.states.update(res["states"])
        self.transitions += res["transitions"]
        self.instances += res["instances"]
        self.pairs += res["pairs"]
        self.excluded += res["excluded"]
        self.outcomes.update(res["outcomes"])
        for cres in res["configs"]:
            self.executions += 1
            self.status[cres["status"]] += 1
            self.max_iterations = max(self.max_iterations, cres["iterations"])
            for st in cres["fired"]:
                self.fired[st] += 1
            if cres.get("cap"):
                self.caps += 1
            if cres["fired"] and cres.get("varies", True):
                self.nontrivial.add((job["id"], tuple(cres["traits"]), repr(cres["inp"]), repr(cres["out"])))
            for v in cres["violations"]:
                self.violations.append((job, cres, v))
        if len(self.samples) < 3 or (self.jobs % 997 == 0 and len(self.samples) < 8):
            c0 = res["configs"][0] if res["configs"] else {}
            self.samples.append({"program": job["prog"], "universe": job["universe"], "traits": c0.get("traits"),
                                 "inp": c0.get("inp"), "out": c0.get("out"), "instances": res["instances"],
                                 "answer_set_pairs": res["pairs"], "fired": c0.get("fired"),
                                 "result": c0.get("result_text")})


def run_pool(jobs: Iterable[dict], seed: int, on_result: Callable[[dict], None], nproc: int = NPROC) -> None:
    jobs = list(jobs)
    # VERIF_SEED only permutes traversal/sharding order of the finite space
    random.Random(seed).shuffle(jobs)
    if nproc <= 1:
        _init_worker()
        for j in jobs:
            on_result(_run(j))
        return
    ctx = mp.get_context("fork")
    with ctx.Pool(nproc, initializer=_init_worker, maxtasksperchild=400) as pool:
        for res in pool.imap_unordered(_run, jobs, chunksize=4):
            on_result(res)


def write_replay(prop: str, job: dict, cres: dict, v: dict) -> str:
    single = dict(job)
    single["configs"] = [c for c in job["configs"]
                         if c["traits"] == cres["traits"] and c["inp"] == cres["inp"] and c["out"] == cres["out"]][:1]
    body = {"property": prop, "job": single, "violation": {k: v[k] for k in v if k not in ("before", "after", "bad_aux")},
            "stage_before": v.get("before"), "stage_after": v.get("after"), "result": cres.get("result_text")}
    fp = h(json.dumps(body["job"], sort_keys=True) + v.get("kind", ""))[:12]
    d = os.path.join(VERIF, "replays", prop)
    os.makedirs(d, exist_ok=True)
    path = os.path.join(d, f"{fp}.json")
    with open(path, "w", encoding="utf8") as f:
        json.dump(body, f, indent=1, sort_keys=True, default=str)
    return path


def finish(prop: str, tier: str, seed: int, agg: Aggregate, t0: float, rule: str, bounds: dict,
           assumptions: Optional[list] = None, extra_cov: Optional[dict] = None,
           extra_violations: Optional[list] = None) -> int:
    """match findings, print verdict lines, write evidence; returns exit code"""
    known = fnd.load(prop)
    matched: Counter = Counter()
    simplest: dict = {}
    unmatched = []
    for job, cres, v in agg.violations:
        ent = fnd.match(known, prop, job, cres, v)
        if ent is None:
            unmatched.append((job, cres, v))
        else:
            matched[ent["id"]] += 1
            key = (len(job["prog"]), job["prog"])
            if ent["id"] not in simplest or key < simplest[ent["id"]][0]:
                simplest[ent["id"]] = (key, job, cres, v)
    if os.environ.get("VT_SAVE_KNOWN") == "1":  # authoring aid: refresh the committed example input of each finding
        for fid, (_, job, cres, v) in simplest.items():
            path = write_replay(prop, job, cres, v)
            os.makedirs(os.path.join(VERIF, "findings"), exist_ok=True)
            os.replace(path, os.path.join(VERIF, "findings", f"{prop}-{fid}.json"))
    code = 0
    if agg.harness_errors:
        for job, err in agg.harness_errors[:3]:
            print(f"HARNESS-ERROR property={prop} job={job['id']}\n{err}", file=sys.stderr)
        code = 2
    for ent in known:
        if matched[ent["id"]]:
            print(f"KNOWN-FINDING: property={prop} {ent['id']}: {ent['what']} [{matched[ent['id']]} explored inputs hit it]")
    # one VIOLATION line per distinct (kind, culprit, signature), simplest program first
    groups: dict = defaultdict(list)
    for job, cres, v in unmatched:
        groups[(v.get("kind"), v.get("culprit"), v.get("sig") or v.get("error") or v.get("detail", "")[:40])].append(
            (job, cres, v))
    replays = []
    for key, items in sorted(groups.items(), key=lambda kv: str(kv[0])):
        items.sort(key=lambda it: (len(it[0]["prog"]), it[0]["prog"], len(it[1]["traits"])))
        job, cres, v = items[0]
        path = write_replay(prop, job, cres, v)
        replays.append(path)
        print(f"VIOLATION property={prop} replay={path}")
        print(f"  kind={key[0]} culprit={key[1]} sig={key[2]} inputs={len(items)} traits={cres['traits']}")
        print("  program: " + job["prog"].replace("\n", " | "))
        if v.get("kind") == "semantic":
            print(f"  instance={v['instance']} expected={v['expected'][:4]} obtained={v['obtained'][:4]}")
        elif v.get("error"):
            print(f"  error={v['error']}")
        elif v.get("detail"):
            print(f"  detail={v['detail']}")
        code = max(code, 1) if code != 2 else 2
    for line in extra_violations or []:
        print(line)
        code = max(code, 1) if code != 2 else 2
    exhaustive = agg.caps == 0
    cov = {
        "states": len(agg.states),
        "transitions": agg.transitions,
        "traces_validated_against_impl": agg.executions,
        "evaluations": agg.executions,
        "distinct_nontrivial": len(agg.nontrivial),
        "rule": rule,
        "samples": agg.samples[:8],
        "programs": agg.jobs - agg.rejected,
        "programs_generated": agg.jobs,
        "rejected_by_clingo": agg.rejected,
        "executions": agg.executions,
        "instances": agg.instances,
        "instances_excluded": agg.excluded,
        "instance_answer_set_pairs": agg.pairs,
        "distinct_outcomes": len(agg.outcomes),
        "pass_fired_executions": dict(agg.fired),
        "status": dict(agg.status),
        "max_loop_iterations": agg.max_iterations,
        "families": dict(agg.families),
        "family_cpu_s": {k: round(v, 1) for k, v in agg.family_cpu.items()},
        "caps_hit": agg.caps,
        "exhaustive": exhaustive,
        "bounds": bounds,
        "known_findings_matched": dict(matched),
        "unmatched_violation_groups": len(groups),
        "cpu_s": round(agg.cpu, 1),
    }
    cov.update(agg.extra)
    if extra_cov:
        cov.update(extra_cov)
    ev = {
        "property_id": prop,
        "tier": tier,
        "seed": seed,
        "level": "model_checking",
        "coverage": cov,
        "assumptions": assumptions or [
            "clingo 5.8 (gringo+clasp) is the reference semantics",
            "combined-instance encoding is equivalent to per-instance solving (splitting-set theorem)",
            "bounded template grammar: only programs/instances within the stated bounds are covered",
        ],
        "wall_s": round(time.time() - t0, 2),
        "violations": len(unmatched) + len(extra_violations or []),
    }
    os.makedirs(os.path.join(VERIF, "evidence"), exist_ok=True)
    with open(os.path.join(VERIF, "evidence", f"{prop}.json"), "w", encoding="utf8") as f:
        json.dump(ev, f, indent=1, sort_keys=True, default=str)
    print(f"{prop} tier={tier} seed={seed}: programs={cov['programs']} (generated {agg.jobs}, rejected {agg.rejected}) "
          f"executions={agg.executions} states={cov['states']} transitions={cov['transitions']} "
          f"instances={agg.instances} pairs={agg.pairs} nontrivial={cov['distinct_nontrivial']} "
          f"outcomes={cov['distinct_outcomes']} fired={dict(agg.fired)} known={sum(matched.values())} "
          f"unmatched={len(unmatched)} exhaustive={exhaustive} wall={ev['wall_s']}s")
    return code
