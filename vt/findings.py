"""known findings: parsing of /verif/KNOWN_FINDINGS.txt and matching of violations.

A line
    known: property=C12 id=<slug> kind=semantic culprit=minmax_chains match=<matcher>[,<matcher>..] :: <what fails>
identifies a finding by conditions that the harness checks on ONE violating execution:
  kind=      the kind of violation (semantic, crash, invalid_text, ...)
  culprit=   the first stage whose output is not equivalent to its input (from the tracer)
  error=     for crashes: <ExceptionType>@<file>:<function> of the innermost ngo frame
  sig=       canonical rewrite signature(s) of the culprit stage ("+"-separated)
  match=     named matcher(s) from MATCHERS below, evaluated on the violation record (e.g. a condition
             that ALL failing instances must satisfy)
All given conditions must hold.  A violation that no entry matches is reported as VIOLATION.
'fixed:' lines are documentation only and suppress nothing.  The file is never written at run time.
"""

from __future__ import annotations

import os
import re
from typing import Callable, Optional

from vt.common import VERIF

PATH = os.path.join(VERIF, "KNOWN_FINDINGS.txt")

MATCHERS: dict[str, Callable[[dict, dict, dict], bool]] = {}


def matcher(name: str):
    def deco(fn):
        MATCHERS[name] = fn
        return fn

    return deco


def load(prop: str) -> list[dict]:
    out = []
    if not os.path.exists(PATH):
        return out
    with open(PATH, encoding="utf8") as f:
        for line in f:
            line = line.strip()
            if not line.startswith("known:"):
                continue
            head, _, what = line[len("known:"):].partition("::")
            ent = {"what": what.strip()}
            for tok in head.split():
                k, _, val = tok.partition("=")
                ent[k] = val
            if prop not in ent.get("property", "").split(","):
                continue
            assert "id" in ent, line
            for name in filter(None, ent.get("match", "").split(",")):
                assert name in MATCHERS, f"unknown matcher {name}"
            out.append(ent)
    return out


def match(known: list[dict], prop: str, job: dict, cres: dict, v: dict) -> Optional[dict]:
    for ent in known:
        if "kind" in ent and ent["kind"] != v.get("kind"):
            continue
        if "culprit" in ent and ent["culprit"] != v.get("culprit"):
            continue
        if "error" in ent and ent["error"] != v.get("error"):
            continue
        if "sig" in ent and v.get("sig") not in ent["sig"].split("+"):
            continue
        if "family" in ent and not job.get("family", "").startswith(ent["family"]):
            continue
        ok = True
        for name in filter(None, ent.get("match", "").split(",")):
            try:
                hit = MATCHERS[name](job, cres, v)
            except Exception:  # pylint: disable=broad-except
                hit = False  # a matcher that cannot decide never suppresses a violation
            if not hit:
                ok = False
                break
        if ok:
            return ent
    return None


# ---------------------------------------------------------------------------------------------
# named matchers


def _lines(text: Optional[str]) -> list[str]:
    return (text or "").split("\n")


def removed_added(v: dict) -> tuple[list[str], list[str]]:
    prev = _lines(v.get("before"))
    cur = _lines(v.get("after"))
    return [s for s in prev if s not in cur], [s for s in cur if s not in prev]


_MINMAX_DOM = re.compile(r"__dom___(?:min|max)(?:_\d+)+")
_MINMAX_EXTREME = re.compile(r"__(?:min|max)_\d+_\d+__dom___(?:min|max)(?:_\d+)+")


@matcher("minmax_empty_domain")
def minmax_empty_domain(job: dict, cres: dict, v: dict) -> bool:
    """every failing instance leaves some emitted __dom___{min,max}_<n>_<line> predicate empty in the result
    (the #inf/#sup rule of the chain encoding needs the least/greatest domain element to exist)"""
    emitted = set()
    for line in (cres.get("result_text") or v.get("after") or "").split("\n"):
        head = line.split(":-")[0].strip()
        name = head.split("(")[0]
        # the emitted domain predicate, or (when another pass renamed/short-circuited it) the least/greatest element
        # predicates computed from it: they are empty exactly when the domain is empty
        if _MINMAX_DOM.fullmatch(name) or _MINMAX_EXTREME.fullmatch(name):
            arity = 0 if "(" not in head else head.count(",") + 1
            emitted.add(f"{name}/{arity}")
    if not emitted or "bad_aux" not in v:
        return False
    for _, present in v["bad_aux"]:
        if not emitted - set(present):
            return False
    # the emptiness has to be genuine: every domain predicate used in the result has a rule, and in NO answer set of
    # the source any element of a #min/#max aggregate holds for the failing instance (otherwise the domain is wrongly
    # empty, which is a different defect)
    text = cres.get("result_text") or v.get("after") or ""
    used = set(re.findall(r"(?<![A-Za-z0-9_])__dom_[A-Za-z0-9_]*", text))
    defined = {line.lstrip("-").split("(")[0].split(" ")[0].rstrip(".") for line in text.split("\n")
               if line.lstrip("-").startswith("__dom_")}
    used -= set(re.findall(r"(?<![A-Za-z0-9_])__dom_[A-Za-z0-9_]*", job["prog"]))  # names the source uses itself
    if used - defined:
        return False
    for facts, present in v["bad_aux"]:
        keys = set()
        for name in emitted - set(present):
            m = re.search(r"__dom___(?:min|max)_\d+_(\d+)(?:_(\d+))?/", name + "/")
            if m:
                keys.add((int(m.group(1)), int(m.group(2) or 0)))
        res = _minmax_elements_possible(job, facts)
        if res is None:
            return False
        possible, allkeys = res
        lines = {k[0] for k in keys}
        # aggregates on the named source lines (other passes may have renumbered / removed rules: then any aggregate)
        cands = {k for k in allkeys if k[0] in lines} or allkeys
        if not any(k not in possible for k in cands):
            return False
    return True


def _vars(node) -> list:
    from clingo.ast import ASTType  # pylint: disable=import-outside-toplevel

    out: list = []

    def rec(n):
        if hasattr(n, "ast_type"):
            if n.ast_type == ASTType.Variable:
                out.append(n)
            for key in n.child_keys:
                rec(getattr(n, key))
        elif hasattr(n, "__iter__") and not isinstance(n, str):
            for x in n:
                rec(x)

    if node is not None:
        rec(node)
    return out


def _minmax_elements_possible(job: dict, facts: list):
    """{(source line, index on that line)} of the #min/#max body aggregates some element of which holds in SOME answer
    set of the SOURCE for this instance (together with the positive body atoms of the rule); None if undecidable"""
    import clingo  # pylint: disable=import-outside-toplevel
    from clingo.ast import AggregateFunction, ASTType  # pylint: disable=import-outside-toplevel

    from vt.common import parse  # pylint: disable=import-outside-toplevel

    extra = []
    per_line: dict = {}
    for stm in parse(job["prog"]):
        if stm.ast_type not in (ASTType.Rule, ASTType.Minimize):
            continue
        for lit in stm.body:
            if lit.ast_type == ASTType.Literal and lit.atom.ast_type == ASTType.BodyAggregate and lit.atom.function in (
                    AggregateFunction.Min, AggregateFunction.Max):
                line = stm.location.begin.line
                idx = per_line.get(line, 0)
                per_line[line] = idx + 1
                # every other body literal (atoms of either sign, aggregates, conditional literals) except
                # comparisons on the value of the aggregate
                value_vars = set(v.name for v in _vars(lit.atom.left_guard))
                others = [str(b) for b in stm.body if b is not lit and (
                    b.ast_type == ASTType.ConditionalLiteral or (b.ast_type == ASTType.Literal and not (
                        b.atom.ast_type == ASTType.Comparison and set(v.name for v in _vars(b)) & value_vars)))]
                for elem in lit.atom.elements:
                    conds = [str(c) for c in elem.condition] + others
                    extra.append(f"vt__elem({line},{idx})" + (" :- " + "; ".join(conds) if conds else "") + ".")
                break  # ngo translates the first aggregate of a rule only
    ctl = clingo.Control(["0"] + [x for k, val in job["consts"] for x in ("-c", f"{k}={val}")], logger=lambda c, m: None)
    try:
        ctl.add("base", [], job["prog"] + "\n" + "\n".join(extra) + "\n" + "".join(f"{f}.\n" for f in facts))
        ctl.ground([("base", [])])
    except RuntimeError:
        return None
    hit: set = set()

    def on_model(m):
        for sym in m.symbols(atoms=True):
            if sym.name == "vt__elem":
                hit.add((sym.arguments[0].number, sym.arguments[1].number))

    ctl.solve(on_model=on_model)
    allkeys = {(line, i) for line, n in per_line.items() for i in range(n)}
    return hit, allkeys


@matcher("sumchains_none_symbol")
def sumchains_none_symbol(job: dict, cres: dict, v: dict) -> bool:
    """the culprit stage replaced an atom with an anonymous group argument and emitted the symbol `none` for it"""
    removed, added = removed_added(v)
    anon = any(re.search(r"[(,]_[,)]", s) for s in removed)
    none = any(re.search(r"[(,]none[,)]", s) for s in added)
    return anon and none


@matcher("sum_head_tuple_not_identifying")
def sum_head_tuple_not_identifying(job: dict, cres: dict, v: dict) -> bool:
    """the source defines a predicate by a `#sum { w : atom : cond } <= 1` head aggregate whose tuple does not contain
    the local variables of the atom (so the bound does not limit the number of atoms)"""
    from clingo.ast import ASTType  # pylint: disable=import-outside-toplevel

    from vt.common import parse  # pylint: disable=import-outside-toplevel

    def variables(node) -> set:
        out: set = set()

        def rec(n):
            if hasattr(n, "ast_type"):
                if n.ast_type == ASTType.Variable:
                    out.add(n.name)
                for key in n.child_keys:
                    rec(getattr(n, key))
            elif isinstance(n, (list, tuple)) or (hasattr(n, "__iter__") and not isinstance(n, str)):
                for x in n:
                    rec(x)

        rec(node)
        return out

    for stm in parse(job["prog"]):
        if stm.ast_type != ASTType.Rule or stm.head.ast_type != ASTType.HeadAggregate:
            continue
        body_vars = variables(list(stm.body))
        for elem in stm.head.elements:
            local = variables(elem.condition.literal) - body_vars
            tup = variables(list(elem.terms[1:]))
            if local and not local <= tup:
                return True
    return False


def _equality_cycle(stm) -> bool:
    """true if the body of the statement contains equalities `V = t` (or `t = V`, `not V != t`) whose variables depend
    on each other cyclically (V occurs in t, or V1 = t1(V2), V2 = t2(V1), ...)"""
    from clingo.ast import ASTType, ComparisonOperator, Sign  # pylint: disable=import-outside-toplevel

    import networkx as nx  # pylint: disable=import-outside-toplevel

    def variables(node) -> set:
        out: set = set()

        def rec(n):
            if hasattr(n, "ast_type"):
                if n.ast_type == ASTType.Variable:
                    out.add(n.name)
                for key in n.child_keys:
                    rec(getattr(n, key))
            elif hasattr(n, "__iter__") and not isinstance(n, str):
                for x in n:
                    rec(x)

        rec(node)
        return out

    if stm.ast_type not in (ASTType.Rule, ASTType.Minimize):
        return False
    graph = nx.DiGraph()
    same = nx.Graph()  # V1 = V2 makes the two variables one
    eqs = []
    for lit in stm.body:
        if lit.ast_type != ASTType.Literal or lit.atom.ast_type != ASTType.Comparison or len(lit.atom.guards) != 1:
            continue
        guard = lit.atom.guards[0]
        if not ((lit.sign == Sign.NoSign and guard.comparison == ComparisonOperator.Equal)
                or (lit.sign == Sign.Negation and guard.comparison == ComparisonOperator.NotEqual)):
            continue
        if lit.atom.term.ast_type == ASTType.Variable and guard.term.ast_type == ASTType.Variable:
            same.add_edge(lit.atom.term.name, guard.term.name)
            continue
        eqs.append((lit.atom.term, guard.term))
    rep = {}
    for comp in nx.connected_components(same):
        first = sorted(comp)[0]
        for name in comp:
            rep[name] = first
    for lhs, rhs in eqs:
        for var, term in ((lhs, rhs), (rhs, lhs)):
            if var.ast_type == ASTType.Variable and var.name != "_":
                for other in variables(term):
                    graph.add_edge(rep.get(var.name, var.name), rep.get(other, other))
    try:
        nx.find_cycle(graph)
        return True
    except nx.NetworkXNoCycle:
        return False


@matcher("inline_equality_cycle")
def inline_equality_cycle(job: dict, cres: dict, v: dict) -> bool:
    """the culprit stage (a caller of normalize.inline_arithmetic) got a statement whose equalities are cyclic
    (X = X+1; or X = 2*Y, Y = X/2) and substituted one of them away"""
    from vt.common import parse  # pylint: disable=import-outside-toplevel

    removed, _ = removed_added(v)
    for text in removed:
        try:
            stms = parse(text)
        except RuntimeError:
            continue
        if any(_equality_cycle(s) for s in stms):
            return True
    return False


@matcher("math_nonunit_elimination")
def math_nonunit_elimination(job: dict, cres: dict, v: dict) -> bool:
    """the math stage removed a variable that occurred under a multiplication/division/modulo/power/absolute value
    in a comparison of the statement (solving c*Y = X for Y is not always possible over the integers)"""
    from clingo.ast import ASTType, BinaryOperator, UnaryOperator  # pylint: disable=import-outside-toplevel

    from vt.common import parse  # pylint: disable=import-outside-toplevel

    nonlinear = (BinaryOperator.Multiplication, BinaryOperator.Division, BinaryOperator.Modulo, BinaryOperator.Power)

    def walk(n, under: bool, acc_nl: set, acc_all: set):
        if hasattr(n, "ast_type"):
            if n.ast_type == ASTType.Variable:
                acc_all.add(n.name)
                if under:
                    acc_nl.add(n.name)
            here = under
            if n.ast_type == ASTType.BinaryOperation and n.operator_type in nonlinear:
                here = True
            if n.ast_type == ASTType.UnaryOperation and n.operator_type == UnaryOperator.Absolute:
                here = True
            for key in n.child_keys:
                walk(getattr(n, key), here, acc_nl, acc_all)
        elif hasattr(n, "__iter__") and not isinstance(n, str):
            for x in n:
                walk(x, under, acc_nl, acc_all)

    removed, added = removed_added(v)
    nl: set = set()
    allv: set = set()
    kept: set = set()
    try:
        for text in removed:
            for stm in parse(text):
                walk(stm, False, nl, allv)
        for text in added:
            for stm in parse(text):
                walk(stm, False, set(), kept)
    except RuntimeError:
        return False
    return bool(nl - kept)


@matcher("inline_unsafe_substitution")
def inline_unsafe_substitution(job: dict, cres: dict, v: dict) -> bool:
    """inline_rule substituted an equality and (a) the equalities were cyclic, or (b) the result is unsafe because the
    substituted term contains an operation gringo cannot invert (|.|, *, /, \\, **) over a variable that the removed
    equality or the replaced atom used to bind"""
    from clingo.ast import ASTType, BinaryOperator, ComparisonOperator, Sign, UnaryOperator  # pylint: disable=import-outside-toplevel

    from vt.common import parse  # pylint: disable=import-outside-toplevel

    if inline_equality_cycle(job, cres, v):
        return True
    if v.get("kind") not in ("invalid_text", "invalid_ast"):
        return False
    bad_ops = (BinaryOperator.Multiplication, BinaryOperator.Division, BinaryOperator.Modulo, BinaryOperator.Power)

    def noninvertible(term) -> bool:
        found = []

        def rec(n):
            if hasattr(n, "ast_type"):
                if n.ast_type == ASTType.BinaryOperation and n.operator_type in bad_ops:
                    found.append(n)
                if n.ast_type == ASTType.UnaryOperation and n.operator_type == UnaryOperator.Absolute:
                    found.append(n)
                for key in n.child_keys:
                    rec(getattr(n, key))
            elif hasattr(n, "__iter__") and not isinstance(n, str):
                for x in n:
                    rec(x)

        rec(term)
        return bool(found)

    removed, _ = removed_added(v)
    for text in removed:
        try:
            stms = parse(text)
        except RuntimeError:
            continue
        for stm in stms:
            if stm.ast_type not in (ASTType.Rule, ASTType.Minimize):
                continue
            for lit in stm.body:
                if lit.ast_type != ASTType.Literal or lit.atom.ast_type != ASTType.Comparison:
                    continue
                if len(lit.atom.guards) != 1:
                    continue
                guard = lit.atom.guards[0]
                if not ((lit.sign == Sign.NoSign and guard.comparison == ComparisonOperator.Equal)
                        or (lit.sign == Sign.Negation and guard.comparison == ComparisonOperator.NotEqual)):
                    continue
                for var, term in ((lit.atom.term, guard.term), (guard.term, lit.atom.term)):
                    if var.ast_type == ASTType.Variable and noninvertible(term):
                        return True
    return False


@matcher("domain_through_negation")
def domain_through_negation(job: dict, cres: dict, v: dict) -> bool:
    """the culprit stage emitted a domain rule `__dom_p(..) :- .., not __dom_q(..)` (or with a conditional literal over
    `__dom_q`): the negated/conditional literal over a choice-dependent predicate was replaced by its domain predicate,
    which makes the 'domain' smaller than the real extension of p"""
    _, added = removed_added(v)
    text = cres.get("result_text") or ""
    rules = [s for s in added if s.startswith("__dom_")] or [s for s in text.split("\n") if s.startswith("__dom_")]
    for rule in rules:
        head, _, body = rule.partition(":-")
        if re.search(r"not\s+(not\s+)?__dom_", body):
            return True
    return False


@matcher("source_uses_hardwired_variable")
def source_uses_hardwired_variable(job: dict, cres: dict, v: dict) -> bool:
    """the source program itself has a variable called __PREV or __NEXT, the names minmax_chains / sum_chains hard-wire"""
    return bool(re.search(r"(?<![A-Za-z0-9_])__(PREV|NEXT)(?![A-Za-z0-9_])", job["prog"]))


@matcher("invented_equals_declared_output_only")
def invented_equals_declared_output_only(job: dict, cres: dict, v: dict) -> bool:
    """an invented predicate coincides with a DECLARED OUTPUT predicate that does not occur in the program (the name
    generators only know the program and the input predicates)"""
    m = re.search(r"invented head predicate\(s\) (\[.*\]) coincide", v.get("detail", ""))
    if not m or cres["out"] == "auto":
        return False
    clash = set(eval(m.group(1)))  # pylint: disable=eval-used  (our own repr of a list of tuples)
    outs = {tuple(p) for p in cres["out"]}
    ins = {tuple(p) for p in cres["inp"]} if cres["inp"] != "auto" else set()
    return bool(clash) and clash <= outs - ins


@matcher("order_predicate_other_arity")
def order_predicate_other_arity(job: dict, cres: dict, v: dict) -> bool:
    """a generated __chain/__min/__max/__next predicate is emitted with another arity than the one its name was reserved
    for, and the program or the declarations use exactly that name and arity"""
    m = re.search(r"predicate\(s\) (\[.*?\]) (?:that the source uses but does not define )?got a defining rule",
                  v.get("detail", ""))
    if not m:
        return False
    clash = set(eval(m.group(1)))  # pylint: disable=eval-used
    return bool(clash) and all(re.match(r"__(chain|min|max|next)_[0-9_]*(?:_?(?:max|min)_)?__dom_", n) for n, _ in clash)


@matcher("source_defines_order_predicate_name")
def source_defines_order_predicate_name(job: dict, cres: dict, v: dict) -> bool:
    """the source itself defines a predicate with one of the generated __chain/__min/__max/__next names with an arity
    that differs from the one the name generator reserved (the arity of the domain predicate +1/+2)"""
    # (defined by a rule, also classically negated, or merely used in a body / #show condition / #external)
    return bool(re.search(r"(?<![A-Za-z0-9_])__(chain|min|max|next)_[0-9_]*(?:_?(?:max|min)_)?__dom_[A-Za-z0-9_]*\(",
                          job["prog"]))


@matcher("duplication_condition_global_lost")
def duplication_condition_global_lost(job: dict, cres: dict, v: dict) -> bool:
    """decided by re-executing the one failing configuration twice in this process with an observer on
    LiteralCollector: (1) the run really replaces a BODY subset in which a variable is local to a conditional literal
    or aggregate of the subset but global in the rule (bound by a literal outside the subset); (2) when exactly such
    subsets are withheld from the candidate table, no violation attributed to duplication is left."""
    import ngo.literal_duplication as ld
    from ngo.utils.ast import collect_ast, collect_binding_information_body, global_vars_inside_body

    from vt import run

    def lost(subset, body) -> bool:
        bound = collect_binding_information_body(subset)[0]
        local = {x for lit in subset for x in collect_ast(lit, "Variable") if x.name != "_"} - bound
        return bool(local & global_vars_inside_body(list(body)))

    single = dict(job, checks=["semantic"])
    single["configs"] = [c for c in job["configs"]
                         if c["traits"] == cres["traits"] and c["inp"] == cres["inp"] and c["out"] == cres["out"]][:1]
    if not single["configs"]:
        return False
    cls = ld.LiteralCollector
    orig_rebuild, orig_add = cls.rebuild, cls._add_occurences_from_body
    hit: list = []

    def rebuild(self, rb, name, variables):
        if rb.sub_ast is None and lost(rb.original_literals, self.prg[rb.ruleid].body):
            hit.append(rb.ruleid)
        return orig_rebuild(self, rb, name, variables)

    def add(self, body, index):
        body = list(body)
        orig_add(self, body, index)
        for key in list(self.occurences):
            keep = [rb for rb in self.occurences[key]
                    if not (rb.ruleid == index and rb.sub_ast is None and lost(rb.original_literals, body))]
            if keep:
                self.occurences[key] = keep
            else:
                del self.occurences[key]

    try:
        cls.rebuild = rebuild
        run.run_job(single)
        cls.rebuild = orig_rebuild
        if not hit:
            return False
        cls._add_occurences_from_body = add
        res = run.run_job(single)
    finally:
        cls.rebuild, cls._add_occurences_from_body = orig_rebuild, orig_add
    if res.get("rejected") or "harness_error" in res:
        return False
    return not any(x.get("culprit") == "duplication" for c in res["configs"] for x in c["violations"])


@matcher("aggregate_equality_of_globals")
def aggregate_equality_of_globals(job: dict, cres: dict, v: dict) -> bool:
    """a rule removed by the culprit stage has an aggregate element whose condition compares (V1 = V2, not V1 != V2)
    two variables that are BOTH global in the rule, and that comparison is gone from the statements the stage added"""
    from clingo.ast import ASTType, ComparisonOperator, Sign

    from ngo.utils.ast import global_vars_inside_body

    from vt.common import parse

    removed, added = removed_added(v)
    try:
        before = [s for s in parse("\n".join(removed)) if s.ast_type in (ASTType.Rule, ASTType.Minimize)]
    except Exception:  # pylint: disable=broad-except
        return False
    for rule in before:
        glob = {x.name for x in global_vars_inside_body(list(rule.body))}
        for lit in rule.body:
            if lit.ast_type != ASTType.Literal or lit.atom.ast_type != ASTType.BodyAggregate:
                continue
            for elem in lit.atom.elements:
                for c in elem.condition:
                    if c.ast_type != ASTType.Literal or c.atom.ast_type != ASTType.Comparison or len(c.atom.guards) != 1:
                        continue
                    g = c.atom.guards[0]
                    eq = (c.sign == Sign.NoSign and g.comparison == ComparisonOperator.Equal) or (
                        c.sign == Sign.Negation and g.comparison == ComparisonOperator.NotEqual)
                    if (eq and c.atom.term.ast_type == ASTType.Variable and g.term.ast_type == ASTType.Variable
                            and {c.atom.term.name, g.term.name} <= glob and c.atom.term.name != g.term.name
                            and str(c) not in "\n".join(added)):
                        return True
    return False
