"""known findings: parsing of /verif/KNOWN_FINDINGS.txt and matching of violations.

A line
    known: property=C12 id=<slug> kind=semantic culprit=minmax_chains match=<matcher>[,<matcher>..] :: <what fails>
identifies a finding by conditions that the harness checks on ONE violating execution:
  kind=      the kind of violation (semantic, crash, invalid_text, ...)
  culprit=   the first stage whose output is not equivalent to its input (from the tracer)
  error=     for crashes: <ExceptionType>@<file>:<function> of the innermost ngo frame
  sig=       canonical rewrite signature(s) of the culprit stage ("+"-separated)
  match=     named matcher(s) from MATCHERS below, evaluated on the violation record (e.g. a condition
             that ALL failing instances must satisfy)
All given conditions must hold.  A violation that no entry matches is reported as VIOLATION.
'fixed:' lines are documentation only and suppress nothing.  The file is never written at run time.
"""

from __future__ import annotations

import os
import re
from typing import Callable, Optional

from vt.common import VERIF

PATH = os.path.join(VERIF, "KNOWN_FINDINGS.txt")

MATCHERS: dict[str, Callable[[dict, dict, dict], bool]] = {}


def matcher(name: str):
    def deco(fn):
        MATCHERS[name] = fn
        return fn

    return deco


def load(prop: str) -> list[dict]:
    out = []
    if not os.path.exists(PATH):
        return out
    with open(PATH, encoding="utf8") as f:
        for line in f:
            line = line.strip()
            if not line.startswith("known:"):
                continue
            head, _, what = line[len("known:"):].partition("::")
            ent = {"what": what.strip()}
            for tok in head.split():
                k, _, val = tok.partition("=")
                ent[k] = val
            if ent.get("property") != prop:
                continue
            assert "id" in ent, line
            for name in filter(None, ent.get("match", "").split(",")):
                assert name in MATCHERS, f"unknown matcher {name}"
            out.append(ent)
    return out


def match(known: list[dict], prop: str, job: dict, cres: dict, v: dict) -> Optional[dict]:
    for ent in known:
        if "kind" in ent and ent["kind"] != v.get("kind"):
            continue
        if "culprit" in ent and ent["culprit"] != v.get("culprit"):
            continue
        if "error" in ent and ent["error"] != v.get("error"):
            continue
        if "sig" in ent and v.get("sig") not in ent["sig"].split("+"):
            continue
        if "family" in ent and not job.get("family", "").startswith(ent["family"]):
            continue
        ok = True
        for name in filter(None, ent.get("match", "").split(",")):
            if not MATCHERS[name](job, cres, v):
                ok = False
                break
        if ok:
            return ent
    return None


# ---------------------------------------------------------------------------------------------
# named matchers


def _lines(text: Optional[str]) -> list[str]:
    return (text or "").split("\n")


def removed_added(v: dict) -> tuple[list[str], list[str]]:
    prev = _lines(v.get("before"))
    cur = _lines(v.get("after"))
    return [s for s in prev if s not in cur], [s for s in cur if s not in prev]


_MINMAX_DOM = re.compile(r"__dom___(?:min|max)(?:_\d+)+")


@matcher("minmax_empty_domain")
def minmax_empty_domain(job: dict, cres: dict, v: dict) -> bool:
    """every failing instance leaves some emitted __dom___{min,max}_<n>_<line> predicate empty in the result
    (the #inf/#sup rule of the chain encoding needs the least/greatest domain element to exist)"""
    emitted = set(_MINMAX_DOM.findall(cres.get("result_text") or v.get("after") or ""))
    if not emitted or "bad_aux" not in v:
        return False
    for _, present in v["bad_aux"]:
        if not emitted - set(present):
            return False
    return True


@matcher("sumchains_none_symbol")
def sumchains_none_symbol(job: dict, cres: dict, v: dict) -> bool:
    """the culprit stage replaced an atom with an anonymous group argument and emitted the symbol `none` for it"""
    removed, added = removed_added(v)
    anon = any(re.search(r"[(,]_[,)]", s) for s in removed)
    none = any(re.search(r"[(,]none[,)]", s) for s in added)
    return anon and none


@matcher("sum_head_tuple_not_identifying")
def sum_head_tuple_not_identifying(job: dict, cres: dict, v: dict) -> bool:
    """the source defines a predicate by a `#sum { w : atom : cond } <= 1` head aggregate whose tuple does not contain
    the local variables of the atom (so the bound does not limit the number of atoms)"""
    from clingo.ast import ASTType  # pylint: disable=import-outside-toplevel

    from vt.common import parse  # pylint: disable=import-outside-toplevel

    def variables(node) -> set:
        out: set = set()

        def rec(n):
            if hasattr(n, "ast_type"):
                if n.ast_type == ASTType.Variable:
                    out.add(n.name)
                for key in n.child_keys:
                    rec(getattr(n, key))
            elif isinstance(n, (list, tuple)) or (hasattr(n, "__iter__") and not isinstance(n, str)):
                for x in n:
                    rec(x)

        rec(node)
        return out

    for stm in parse(job["prog"]):
        if stm.ast_type != ASTType.Rule or stm.head.ast_type != ASTType.HeadAggregate:
            continue
        body_vars = variables(list(stm.body))
        for elem in stm.head.elements:
            local = variables(elem.condition.literal) - body_vars
            tup = variables(list(elem.terms[1:]))
            if local and not local <= tup:
                return True
    return False
