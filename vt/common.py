"""shared constants and helpers"""

from __future__ import annotations

import hashlib
import os
import re
from itertools import combinations
from typing import Iterable

from clingo.ast import AST, ASTType, Transformer, parse_string

TRAITS = [
    "cleanup",
    "unused",
    "duplication",
    "symmetry",
    "minmax_chains",
    "sum_chains",
    "math",
    "inline",
    "projection",
]
DEFAULT = [t for t in TRAITS if t != "duplication"]
AUX_ONLY = ["cleanup", "duplication", "symmetry", "minmax_chains", "sum_chains", "math", "projection"]

VERIF = os.path.dirname(os.path.dirname(os.path.abspath(__file__)))


def all_subsets(items: list[str]) -> list[list[str]]:
    out = []
    for k in range(len(items) + 1):
        for c in combinations(items, k):
            out.append(list(c))
    return out


def single(trait: str) -> list[str]:
    return [trait]


def flags(traits: Iterable[str]) -> dict[str, bool]:
    ts = set(traits)
    assert ts <= set(TRAITS), ts
    return {t: (t in ts) for t in TRAITS}


def h(text: str) -> str:
    return hashlib.md5(text.encode()).hexdigest()[:16]


def parse(text: str) -> list[AST]:
    out: list[AST] = []
    parse_string(text, out.append, logger=lambda c, m: None)
    return out


def prg_text(prg: Iterable[AST]) -> str:
    return "\n".join(str(s) for s in prg)


class _PredCollector(Transformer):
    """independent of ngo: collect (name, arity) of every symbolic atom"""

    def __init__(self) -> None:
        self.preds: set[tuple[str, int]] = set()

    def visit_SymbolicAtom(self, node: AST) -> AST:  # pylint: disable=invalid-name
        sym = node.symbol
        if sym.ast_type == ASTType.UnaryOperation:  # classical negation
            sym = sym.argument
        if sym.ast_type == ASTType.Function:
            self.preds.add((sym.name, len(sym.arguments)))
        elif sym.ast_type == ASTType.Pool:
            for arg in sym.arguments:
                if arg.ast_type == ASTType.UnaryOperation:
                    arg = arg.argument
                if arg.ast_type == ASTType.Function:
                    self.preds.add((arg.name, len(arg.arguments)))
        return node


def vocabulary(prg: Iterable[AST]) -> set[tuple[str, int]]:
    """all predicates (name, arity) of symbolic atoms occurring anywhere in the program,
    plus those named by #show p/n. / #project p/n. / #defined p/n."""
    col = _PredCollector()
    for stm in prg:
        col.visit(stm)
        if stm.ast_type in (ASTType.ShowSignature, ASTType.ProjectSignature, ASTType.Defined):
            col.preds.add((stm.name, stm.arity))
    return col.preds


def has_show(prg: Iterable[AST]) -> bool:
    return any(s.ast_type in (ASTType.ShowSignature, ASTType.ShowTerm) for s in prg)


_TOKEN = re.compile(r"#[a-z+]+|[A-Z][A-Za-z0-9_]*|_+[A-Z][A-Za-z0-9_]*|_*[a-z][A-Za-z0-9_]*|\d+|\"[^\"]*\"")


def canonical(texts: list[str]) -> str:
    """rename predicate/function/constant names, variables and numerals in order of first occurrence"""
    names: dict[str, str] = {}
    varis: dict[str, str] = {}
    nums: dict[str, str] = {}

    def sub(m: re.Match) -> str:
        t = m.group(0)
        if t[0] == "#" or t[0] == '"':
            return t
        if t.isdigit():
            return nums.setdefault(t, f"n{len(nums)}")
        s = t.lstrip("_")
        if s and s[0].isupper():
            return varis.setdefault(t, f"V{len(varis)}")
        if t == "not":
            return t
        return names.setdefault(t, f"p{len(names)}")

    return "\n".join(_TOKEN.sub(sub, t) for t in texts)
