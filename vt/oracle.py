"""Semantic oracle: clingo as the reference model.

solve() enumerates, in ONE grounding, every (instance, answer set) pair of a program for all
instances I that are subsets of a universe U of ground facts (optionally |I| <= max_facts):
    { __vt_i(k) }.   f_k :- __vt_i(k).        for every f_k in U
By the splitting-set theorem AS(P + choice(U)) = U_I { M + markers(I) : M in AS(P + I) }.
solve_instance() is the literal wording of the properties (plain facts, one instance) and is used
as a conformance check of the encoding and as fall-back when the source grounding warns.
"""

from __future__ import annotations

from collections import Counter
from itertools import combinations
from typing import Iterable, Optional, Sequence

import clingo
from clingo import MessageCode
from clingo.ast import ProgramBuilder

MARK = "__vt_i"
MODEL_CAP = 200_000


class CapHit(Exception):
    """more than MODEL_CAP models"""


class Solved:
    """all answer sets of one grounding grouped by instance"""

    __slots__ = ("by_instance", "messages", "undefined", "models")

    def __init__(self) -> None:
        # instance (frozenset of fact indices) -> list of (atoms, shown, cost)
        self.by_instance: dict[frozenset, list] = {}
        self.messages: list[tuple[int, str]] = []
        self.undefined = False
        self.models = 0


_symcache: dict = {}


def _sym(s: clingo.Symbol) -> tuple:
    r = _symcache.get(s)
    if r is None:
        if s.type == clingo.SymbolType.Function:
            r = (s.name, len(s.arguments), str(s))
        else:
            r = ("", 0, str(s))
        if len(_symcache) > 500_000:
            _symcache.clear()
        _symcache[s] = r
    return r


def _cost(model: clingo.Model) -> tuple:
    return tuple(sorted((p, c) for p, c in zip(model.priority, model.cost) if c != 0))


def _control(consts: Sequence[tuple[str, str]], msgs: list) -> clingo.Control:
    args = ["0", "--opt-mode=enum"]
    for k, v in consts:
        args += ["-c", f"{k}={v}"]

    def logger(code: MessageCode, msg: str) -> None:
        msgs.append((code.name, msg))

    return clingo.Control(args, logger=logger, message_limit=1000)


def _load(ctl: clingo.Control, text: Optional[str], asts: Optional[Iterable]) -> None:
    if asts is not None:
        with ProgramBuilder(ctl) as bld:
            for stm in asts:
                bld.add(stm)
    else:
        assert text is not None
        ctl.add("base", [], text)


def marker_program(universe: Sequence[str], max_facts: Optional[int]) -> str:
    lines = []
    for k, fact in enumerate(universe):
        lines.append(f"{{ {MARK}({k}) }}. {fact} :- {MARK}({k}).")
    if max_facts is not None and max_facts < len(universe):
        lines.append(f":- #count{{ K : {MARK}(K) }} > {max_facts}.")
    return "\n".join(lines)


def instances_of(n: int, max_facts: Optional[int]) -> list[frozenset]:
    top = n if max_facts is None else min(n, max_facts)
    return [frozenset(c) for k in range(top + 1) for c in combinations(range(n), k)]


def solve(
    text: Optional[str] = None,
    asts: Optional[Iterable] = None,
    universe: Sequence[str] = (),
    consts: Sequence[tuple[str, str]] = (),
    max_facts: Optional[int] = None,
) -> Solved:
    """enumerate all (instance, answer set) pairs; raises RuntimeError if clingo rejects the program"""
    res = Solved()
    ctl = _control(consts, res.messages)
    _load(ctl, text, asts)
    ctl.add("base", [], marker_program(universe, max_facts))
    ctl.ground([("base", [])])
    res.undefined = any(c == "OperationUndefined" for c, _ in res.messages)
    by = res.by_instance
    for inst in instances_of(len(universe), max_facts):
        by[inst] = []

    def on_model(m: clingo.Model) -> bool:
        res.models += 1
        if res.models > MODEL_CAP:
            return False
        atoms = []
        inst = []
        for s in m.symbols(atoms=True):
            if s.name == MARK:
                inst.append(s.arguments[0].number)
            else:
                atoms.append(_sym(s))
        shown = frozenset(str(s) for s in m.symbols(terms=True))
        by[frozenset(inst)].append((frozenset(atoms), shown, _cost(m)))
        return True

    ctl.solve(on_model=on_model)
    if res.models > MODEL_CAP:
        raise CapHit()
    return res


def solve_instance(
    facts: Sequence[str],
    text: Optional[str] = None,
    asts: Optional[Iterable] = None,
    consts: Sequence[tuple[str, str]] = (),
) -> tuple[list, bool, list]:
    """plain facts, one instance: (models, operation_undefined, messages)"""
    msgs: list = []
    ctl = _control(consts, msgs)
    _load(ctl, text, asts)
    ctl.add("base", [], "".join(f"{f}.\n" for f in facts))
    ctl.ground([("base", [])])
    undefined = any(c == "OperationUndefined" for c, _ in msgs)
    models: list = []

    def on_model(m: clingo.Model) -> bool:
        if len(models) >= MODEL_CAP:
            return False
        atoms = frozenset(_sym(s) for s in m.symbols(atoms=True))
        shown = frozenset(str(s) for s in m.symbols(terms=True))
        models.append((atoms, shown, _cost(m)))
        return True

    ctl.solve(on_model=on_model)
    if len(models) >= MODEL_CAP:
        raise CapHit()
    return models, undefined, msgs


def solve_source(text, universe, consts=(), max_facts=None) -> tuple[dict, set]:
    """source side: combined grounding; if it warns 'operation undefined', fall back to plain
    per-instance solving and exclude exactly the warned instances.
    returns (instance -> models, excluded instances)"""
    res = solve(text=text, universe=universe, consts=consts, max_facts=max_facts)
    if not res.undefined:
        return res.by_instance, set()
    by: dict = {}
    excluded: set = set()
    for inst in instances_of(len(universe), max_facts):
        models, undefined, _ = solve_instance([universe[k] for k in sorted(inst)], text=text, consts=consts)
        if undefined:
            excluded.add(inst)
        else:
            by[inst] = models
    return by, excluded


# ---------------------------------------------------------------------------------------------
# projections / comparisons


def project(models: list, mode: str, preds: Optional[frozenset], costs: bool, multiset: bool):
    """collection of projected answer sets for one instance.
    mode 'preds': atoms whose (name, arity) is in preds; 'shown': shown symbols; 'sat': only satisfiability"""
    items = []
    for atoms, shown, cost in models:
        if mode == "preds":
            proj = frozenset(a[2] for a in atoms if (a[0], a[1]) in preds)
        elif mode == "shown":
            # what the #show statements display: shown terms plus atoms named by #show p/n signatures
            proj = shown | frozenset(a[2] for a in atoms if (a[0], a[1]) in (preds or ()))
        elif mode == "sat":
            proj = frozenset()
        else:
            raise ValueError(mode)
        items.append((proj, cost) if costs else (proj, ()))
    if multiset:
        return Counter(items)
    return set(items)


def render(coll) -> list:
    """JSON-able, deterministic rendering of a projected collection"""
    out = []
    if isinstance(coll, Counter):
        for (proj, cost), n in coll.items():
            out.append([sorted(proj), [list(c) for c in cost], n])
    else:
        for proj, cost in coll:
            out.append([sorted(proj), [list(c) for c in cost], 1])
    out.sort()
    return out


def compare(
    src: dict,
    res: dict,
    excluded: set,
    mode: str,
    preds: Optional[frozenset],
    costs: bool,
    multiset: bool,
) -> list[frozenset]:
    """instances (sorted smallest first) on which source and result differ"""
    bad = []
    for inst, smodels in src.items():
        if inst in excluded:
            continue
        rmodels = res.get(inst, [])
        if mode == "sat":
            if bool(smodels) != bool(rmodels):
                bad.append(inst)
            continue
        a = project(smodels, mode, preds, costs, multiset)
        b = project(rmodels, mode, preds, costs, multiset)
        if a != b:
            bad.append(inst)
    bad.sort(key=lambda i: (len(i), sorted(i)))
    return bad
