"""E3: set-order scheduler.  An import hook loads the ngo.* modules from the normal location through an AST
transformer that routes every iteration over a collection through vt_iter_(x, site).  At run time vt_iter_ is the
identity unless x is a set/frozenset with >= 2 elements whose hashes depend on PYTHONHASHSEED; such an iteration is a
CHOICE POINT of the static site module:line:col.  The scheduler returns the elements in canonical order (sorted by
(str, repr)) or, at deviating sites, permuted by a policy.

Only used by C17.  Runs in dedicated (spawned) worker processes that install the hook before ngo is imported."""

from __future__ import annotations

import ast
import importlib.abc
import importlib.machinery
import importlib.util
import os
import sys

WRAP_CALLS = {"list", "tuple", "iter", "next", "enumerate", "zip", "map", "filter", "chain", "sorted", "min", "max",
              "dict", "sum", "any", "all", "join", "extend", "update", "from_iterable", "permutations", "combinations",
              "product", "pairwise", "largest_subset", "add_edges_from", "add_nodes_from"}

POLICIES = ("reversed", "rotated", "swap2")


class Scheduler:
    """state of one controlled execution"""

    def __init__(self) -> None:
        self.deviate: dict[str, str] = {}  # site -> policy
        self.sites: dict[str, int] = {}  # site -> number of choice points hit
        self.points = 0

    def reset(self, deviate: dict[str, str]) -> None:
        self.deviate = dict(deviate)
        self.sites = {}
        self.points = 0


SCHED = Scheduler()


def _seeded(x) -> bool:
    return not isinstance(x, (int, float, bool, type(None)))


def vt_iter_(x, site: str):
    if isinstance(x, (set, frozenset)) and len(x) >= 2 and any(_seeded(e) for e in x):
        SCHED.points += 1
        SCHED.sites[site] = SCHED.sites.get(site, 0) + 1
        try:
            items = sorted(x, key=lambda e: (str(e), repr(e)))
        except Exception:  # pylint: disable=broad-except
            items = list(x)
        pol = SCHED.deviate.get(site)
        if pol == "reversed":
            items.reverse()
        elif pol == "rotated":
            items = items[1:] + items[:1]
        elif pol == "swap2":
            items[0], items[1] = items[1], items[0]
        return items
    return x


class _Wrap(ast.NodeTransformer):
    def __init__(self, modname: str) -> None:
        self.modname = modname

    def _w(self, node: ast.expr) -> ast.expr:
        site = f"{self.modname}:{getattr(node, 'lineno', 0)}:{getattr(node, 'col_offset', 0)}"
        call = ast.Call(func=ast.Name(id="vt_iter_", ctx=ast.Load()), args=[node, ast.Constant(value=site)], keywords=[])
        return ast.copy_location(call, node)

    def visit_For(self, node: ast.For):  # pylint: disable=invalid-name
        self.generic_visit(node)
        node.iter = self._w(node.iter)
        return node

    def visit_comprehension(self, node: ast.comprehension):
        self.generic_visit(node)
        node.iter = self._w(node.iter)
        return node

    def visit_Call(self, node: ast.Call):  # pylint: disable=invalid-name
        self.generic_visit(node)
        name = None
        if isinstance(node.func, ast.Name):
            name = node.func.id
        elif isinstance(node.func, ast.Attribute):
            name = node.func.attr
        if name in WRAP_CALLS and name != "vt_iter_":
            node.args = [a if isinstance(a, ast.Starred) else self._w(a) for a in node.args]
        return node

    def visit_Starred(self, node: ast.Starred):  # pylint: disable=invalid-name
        self.generic_visit(node)
        node.value = self._w(node.value)
        return node


class _Loader(importlib.machinery.SourceFileLoader):
    def source_to_code(self, data, path, *, _optimize=-1):  # type: ignore
        tree = ast.parse(data, filename=path)
        tree = _Wrap(self.name).visit(tree)
        imp = ast.ImportFrom(module="vt.setsched", names=[ast.alias(name="vt_iter_")], level=0)
        # after the docstring and __future__ imports
        pos = 0
        for i, stm in enumerate(tree.body):
            if (isinstance(stm, ast.Expr) and isinstance(getattr(stm, "value", None), ast.Constant)) or (
                    isinstance(stm, ast.ImportFrom) and stm.module == "__future__"):
                pos = i + 1
            else:
                break
        tree.body.insert(pos, imp)
        ast.fix_missing_locations(tree)
        return compile(tree, path, "exec", dont_inherit=True, optimize=_optimize)


class _Finder(importlib.abc.MetaPathFinder):
    def find_spec(self, fullname, path=None, target=None):
        if fullname != "ngo" and not fullname.startswith("ngo."):
            return None
        for finder in sys.meta_path:
            if finder is self or not hasattr(finder, "find_spec"):
                continue
            spec = finder.find_spec(fullname, path, target)
            if spec is not None and spec.origin and spec.origin.endswith(".py"):
                spec.loader = _Loader(fullname, spec.origin)
                return spec
        return None


def install() -> None:
    assert "ngo" not in sys.modules, "hook must be installed before ngo is imported"
    sys.dont_write_bytecode = True
    sys.meta_path.insert(0, _Finder())
    os.environ["NGO_VERIF"] = "1"
    import logging

    logging.disable(logging.CRITICAL)


def run(prog: str, traits, inp, out, deviate: dict) -> dict:
    """one controlled execution; returns output text (or error) and the active sites"""
    from clingo.ast import parse_string

    import ngo
    from ngo.dependency import DomainPredicates

    try:
        DomainPredicates._predicate.cache_clear()
    except AttributeError:
        pass
    prg: list = []
    parse_string(prog, prg.append, logger=lambda c, m: None)
    inp_p = ngo.auto_detect_input(prg) if inp == "auto" else [ngo.Predicate(n, a) for n, a in inp]
    out_p = ngo.auto_detect_output(prg) if out == "auto" else [ngo.Predicate(n, a) for n, a in out]
    SCHED.reset(deviate)
    flags = {t: (t in traits) for t in ("cleanup", "unused", "duplication", "symmetry", "minmax_chains", "sum_chains",
                                        "math", "inline", "projection")}
    try:
        res = ngo.optimize(prg, inp_p, out_p, **flags)
        text = "\n".join(str(s) for s in res)
    except BaseException as exc:  # pylint: disable=broad-except
        text = f"EXCEPTION {type(exc).__name__}: {exc}"
    return {"text": text, "sites": dict(SCHED.sites), "points": SCHED.points}
