"""C20 oracle: generated domain / min / max / next predicates describe the real domain.
The mapping (predicate -> domain predicate, annotated positions, position) is recovered from ngo's naming scheme in the
answer sets of the RESULT program (reference model in Python, per answer set)."""

from __future__ import annotations

import re
from collections import defaultdict
from typing import Optional

import clingo

ORDER = re.compile(r"^__(min|max|next)_((?:\d+_)*\d+)_(\d+)(__dom_\w+|[a-z]\w*)$")
MINMAX_RESULT = re.compile(r"^__(?:min|max)(?:_\d+)+$")


def _args(atom: str) -> tuple[str, list[clingo.Symbol]]:
    sym = clingo.parse_term(atom)
    return sym.name, list(sym.arguments)


def emitted_domains(result_text: str) -> set:
    """(name, arity) of every domain predicate that has a rule in the result program"""
    from clingo.ast import ASTType  # pylint: disable=import-outside-toplevel

    from vt.common import parse  # pylint: disable=import-outside-toplevel

    out = set()
    for line in result_text.split("\n"):
        if not line.startswith("__dom_"):
            continue
        try:
            for stm in parse(line):
                if stm.ast_type == ASTType.Rule and stm.head.ast_type == ASTType.Literal:
                    sym = stm.head.atom.symbol
                    if sym.ast_type == ASTType.Function:
                        out.add((sym.name, len(sym.arguments)))
        except RuntimeError:
            continue
    return out


def check(models: list, voc: set, domheads: Optional[set] = None) -> Optional[str]:
    """models: list of (atoms frozenset of (name, arity, text), shown, cost) of ONE instance of the result program.
    returns a description of the first broken invariant or None"""
    if not models:
        return None
    dom_ext_ref = None
    for atoms, _, _ in models:
        by_pred: dict = defaultdict(list)
        for name, arity, text in atoms:
            if name.startswith("__") or (name, arity) in voc:
                by_pred[(name, arity)].append(text)
        # (a) p(t) true => __dom_p(t) true, for every domain predicate of a source predicate of the same arity
        doms = {k: v for k, v in by_pred.items() if k[0].startswith("__dom_")}
        for k in domheads or ():  # also the (possibly empty) domain predicates that have rules in the result
            doms.setdefault(k, [])
        dom_names = {n for n, _ in by_pred if n.startswith("__dom_")}
        for (dname, darity), dtexts in list(doms.items()):
            pname = dname[len("__dom_"):]
            dset = {t[len(dname):] for t in dtexts}
            if ((pname, darity) in voc or pname.startswith("__")) and not MINMAX_RESULT.match(pname):
                for t in by_pred.get((pname, darity), []):
                    if t[len(pname):] not in dset:
                        return f"{t} holds but {dname}{t[len(pname):]} does not"
            # result values of chain encoded #min/#max must be domain values (or #inf/#sup)
            if MINMAX_RESULT.match(pname):
                for (n2, a2), texts in by_pred.items():
                    if n2 == pname and a2 >= 1:
                        for t in texts:
                            val = _args(t)[1][-1]
                            if val.type in (clingo.SymbolType.Infimum, clingo.SymbolType.Supremum):
                                continue
                            if f"({val})" not in dset:
                                return f"{t} holds but {dname}({val}) does not"
        # source predicates whose domain predicate is missing entirely in this answer set but the atom holds
        # (b) domain predicates do not depend on choices
        ext = {k: frozenset(v) for k, v in by_pred.items() if k[0].startswith("__dom_") or ORDER.match(k[0])}
        if dom_ext_ref is None:
            dom_ext_ref = ext
        elif ext != dom_ext_ref:
            diff = [k for k in set(ext) | set(dom_ext_ref) if ext.get(k) != dom_ext_ref.get(k)]
            return f"extension of {diff[0][0]}/{diff[0][1]} differs between answer sets of one instance"
        # (c) min / max / next are the extremes and the covering relation of the sorted domain values per group
        for (name, arity), texts in by_pred.items():
            m = ORDER.match(name)
            if not m:
                continue
            kind, annotated, pos, dname = m.group(1), [int(x) for x in m.group(2).split("_")], int(m.group(3)), m.group(4)
            # arity of the domain predicate: groups + annotated positions
            extra = 1 if kind in ("min", "max") else 2
            ngroups = arity - extra
            darity = ngroups + len(annotated)
            dtexts = by_pred.get((dname, darity), [])
            values: dict = defaultdict(set)
            for t in dtexts:
                args = _args(t)[1]
                grp = tuple(a for i, a in enumerate(args) if i not in annotated)
                values[grp].add(args[pos])
            got: dict = defaultdict(set)
            for t in texts:
                args = _args(t)[1]
                got[tuple(args[:ngroups])].add(tuple(args[ngroups:]))
            for grp in set(values) | set(got):
                vs = sorted(values.get(grp, set()))
                if kind == "min":
                    want = {(vs[0],)} if vs else set()
                elif kind == "max":
                    want = {(vs[-1],)} if vs else set()
                else:
                    want = {(a, b) for a, b in zip(vs, vs[1:])}
                if got.get(grp, set()) != want:
                    return (f"{name}{tuple(str(g) for g in grp)} = {sorted(map(lambda x: tuple(map(str, x)), got.get(grp, set())))} "
                            f"but the {kind} of the domain values {[str(v) for v in vs]} is "
                            f"{sorted(map(lambda x: tuple(map(str, x)), want))}")
        # order predicates whose domain is missing for this answer set are covered by grp in got
    return None
