"""C12 minmax_chains: #min/#max rules x definitions of the element predicate x users of the result"""

from __future__ import annotations

from vt.families.base import config, dedupe, job, orc

QDEFS = [
    ("choice", "{ q(P,V) } :- dq(P,V).", [["dq", 2], ["grp", 1]]),
    ("derived", "{ s(P,V) } :- dq(P,V). q(P,V) :- s(P,V), not blk(V).", [["dq", 2], ["grp", 1], ["blk", 1]]),
    ("input", "", [["q", 2], ["grp", 1]]),
    ("choice_base", "{ q(P,V) } :- dq(P,V). q(P,V) :- base(P,V).", [["dq", 2], ["grp", 1], ["base", 2]]),
    ("choice_cond", "{ q(P,V) : dq(P,V) } :- grp(P).", [["dq", 2], ["grp", 1]]),
]

OPS = ["=", "!=", "<", "<=", ">", ">="]


def agg_rules(tier: str):
    """(name, text with {F} placeholder, result predicate signature or None)"""
    out = [
        ("eq", "r(P,X) :- grp(P), X = #{F} {{ V : q(P,V) }}.", "r2"),
        ("eq_swapped", "r(X,P) :- grp(P), X = #{F} {{ V : q(P,V) }}.", "r2s"),
        # aggregate before the group binder, value first in the head (wave 7)
        ("eq_swapped_aggfirst", "r(X,P) :- X = #{F} {{ V : q(P,V) }}, grp(P).", "r2s"),
        ("eq_rev", "r(P,X) :- grp(P), #{F} {{ V : q(P,V) }} = X.", "r2"),
        ("eq_nogrp", "r(X) :- X = #{F} {{ V : q(P,V) }}.", "r1"),
        ("eq_tuple", "r(P,X) :- grp(P), X = #{F} {{ V,W : q(P,V), dq(P,W) }}.", "r2"),
        ("eq_extra", "r(P,X) :- grp(P), X = #{F} {{ V : q(P,V), V != 3 }}.", "r2"),
        ("eq_const", "r(P,X,1) :- grp(P), X = #{F} {{ V : q(P,V) }}.", None),
        ("eq_bound", "r(P,X) :- grp(P), X = #{F} {{ V : q(P,V) }}, X > 0.", "r2"),
        ("eq_two_rules", "r(P,X) :- grp(P), X = #{F} {{ V : q(P,V) }}. r(P,0) :- grp(P), not q(P,_).", None),
        ("eq_sameline", "r(P,X) :- grp(P), X = #{F} {{ V : q(P,V) }}. t(P,X) :- grp(P), X = #{F} {{ V : q(P,V), V > 1 }}.",
         None),
        ("eq_twolines", "r(P,X) :- grp(P), X = #{F} {{ V : q(P,V) }}.\nt(P,X) :- grp(P), X = #{F} {{ V : q(P,V), V > 1 }}.",
         None),
        ("eq_minmax", "r(P,X) :- grp(P), X = #{F} {{ V : q(P,V) }}.\nt(P,X) :- grp(P), X = #{G} {{ V : q(P,V) }}.", None),
        ("two_elems", "r(P,X) :- grp(P), X = #{F} {{ V : q(P,V) ; W : dq(P,W) }}.", None),
        # the assignment next to a conditional literal / aggregate with its own local variables (named W, X and V)
        ("eq_scope_cond", "r(P,X) :- grp(P), X = #{F} {{ V : q(P,V) }}, dq(P,W) : dq(P,W), W > 5.", "r2"),
        ("eq_scope_count", "r(P,X) :- grp(P), X = #{F} {{ V : q(P,V) }}, 1 <= #count {{ W : dq(P,W) }}.", "r2"),
        ("eq_scope_cond_x", "r(P,M) :- grp(P), M = #{F} {{ V : q(P,V) }}, dq(P,X) : dq(P,X), X > 5.", "r2"),
        ("eq_group_x", "r(X,M) :- grp(X), M = #{F} {{ V : q(X,V) }}.", "r2"),
        ("constraint", ":- grp(P), #{F} {{ V : q(P,V) }} > 2.", None),
    ]
    for op in OPS:
        o = {"=": "eq", "!=": "ne", "<": "lt", "<=": "le", ">": "gt", ">=": "ge"}[op]
        out.append((f"bnd_r_{o}", f"r(P) :- grp(P), #{{F}} {{{{ V : q(P,V) }}}} {op} 2.", None))
        out.append((f"bnd_l_{o}", f"r(P) :- grp(P), 2 {op} #{{F}} {{{{ V : q(P,V) }}}}.", None))
        out.append((f"nbnd_r_{o}", f"r(P) :- grp(P), not #{{F}} {{{{ V : q(P,V) }}}} {op} 2.", None))
        if tier != "quick":
            out.append((f"nbnd_l_{o}", f"r(P) :- grp(P), not 2 {op} #{{F}} {{{{ V : q(P,V) }}}}.", None))
            out.append((f"nnbnd_r_{o}", f"r(P) :- grp(P), not not #{{F}} {{{{ V : q(P,V) }}}} {op} 2.", None))
    for op, fun_ok in ((">=", "max"), (">", "max"), ("<=", "min"), ("<", "min")):
        out.append((f"bnd_scope_count_{op}", f"r(P) :- grp(P), #{{F}} {{{{ V : q(P,V) }}}} {op} 2, 1 <= #count {{{{ V : dq(P,V) }}}}.", None))
        out.append((f"bnd_scope_cond_{op}", f"r(P) :- grp(P), #{{F}} {{{{ V : q(P,V) }}}} {op} 2, dq(P,V) : q(P,V).", None))
        out.append((f"bnd_scope_sum_{op}", f"r(P,S) :- grp(P), #{{F}} {{{{ V : q(P,V) }}}} {op} 1, S = #sum {{{{ V : q(P,V) }}}}.", None))
    out.append(("bnd_two", "r(P) :- grp(P), 1 <= #{F} {{ V : q(P,V) }} <= 2.", None))
    out.append(("bnd_var", "r(P) :- grp(P), #{F} {{ V : q(P,V) }} >= P.", None))
    return out


USERS = [
    ("none", "", []),
    ("sum", "u(S) :- S = #sum {{ X,P : r(P,X) }}.", ["r2"]),
    ("sum_guard", "u(S) :- S = #sum {{ X,P : r(P,X), X > -9, X < 9 }}.", ["r2"]),
    ("sum_neg", "u(S) :- S = #sum {{ -X,P : r(P,X), X > -9, X < 9 }}.", ["r2"]),
    ("sum_notuple", "u(S) :- S = #sum {{ X : r(P,X), X > -9, X < 9 }}.", ["r2"]),
    ("sum_two", "u(S) :- S = #sum {{ X,P : r(P,X), X > -9, X < 9 ; 1,P : grp(P) }}.", ["r2"]),
    ("min", "#minimize {{ X@1,P : r(P,X) }}.", ["r2"]),
    ("min_guard", "#minimize {{ X@1,P : r(P,X), X > -9, X < 9 }}.", ["r2"]),
    ("max_guard", "#maximize {{ X@1,P : r(P,X), X > -9, X < 9 }}.", ["r2"]),
    ("minneg_guard", "#minimize {{ -X@1,P : r(P,X), X > -9, X < 9 }}.", ["r2"]),
    ("min_notuple", "#minimize {{ X@1 : r(P,X), X > -9, X < 9 }}.", ["r2"]),
    ("min_second", "#minimize {{ X@1,P : r(P,X), X > -9, X < 9 }}. #minimize {{ 1@1,P : grp(P) }}.", ["r2"]),
    ("min_second_other", "#minimize {{ X@1,P : r(P,X), X > -9, X < 9 }}. #minimize {{ 1@2,P : grp(P) }}.", ["r2"]),
    ("weak_guard", ":~ r(P,X), X > -9, X < 9. [X@1,P]", ["r2"]),
    ("min1_guard", "#minimize {{ X@1 : r(X), X > -9, X < 9 }}.", ["r1"]),
    ("sum1_guard", "u(S) :- S = #sum {{ X : r(X), X > -9, X < 9 }}.", ["r1"]),
    ("weak_realguard", ":~ r(P,X), X > 1, X < 9. [X@1,P]", ["r2"]),
    ("sum_realguard", "u(S) :- S = #sum {{ X,P : r(P,X), X > 1, X < 9 }}.", ["r2"]),
    ("min_realguard", "#minimize {{ X@1,P : r(P,X), X > 1, X < 9 ; 1@1,P : grp(P) }}.", ["r2"]),
    ("weak_otherlit", ":~ r(P,X), X > -9, X < 9, not dq(P,2). [X@1,P]", ["r2"]),
    ("swapped_weak", ":~ r(X,P), X > -9, X < 9. [X@1,P]", ["r2s"]),
    ("swapped_sum", "u(S) :- S = #sum {{ X,P : r(X,P), X > -9, X < 9 }}.", ["r2s"]),
    ("swapped_min", "#minimize {{ X@1,P : r(X,P), X > -9, X < 9 }}.", ["r2s"]),
    ("swapped_sum_noguard", "u(S) :- S = #sum {{ X,P : r(X,P) }}.", ["r2s"]),
    ("swapped_sum_neg_noguard", "u(S) :- S = #sum {{ -X,P : r(X,P) }}.", ["r2s"]),
    ("swapped_min_noguard", "#minimize {{ X@1,P : r(X,P) }}.", ["r2s"]),
    ("min_arith_tuple", "#minimize {{ X@1,P/3 : r(P,X) }}.", ["r2"]),
    ("weak_fun_arith_tuple", ":~ r(P,X). [X@1,f(P/3)]", ["r2"]),
    ("weak_zero_tuple", ":~ r(P,X). [X@1,P*0]", ["r2"]),
    ("sum_arith_tuple", "u(S) :- S = #sum {{ X,P/3 : r(P,X) }}.", ["r2"]),
    ("sum_fun_tuple", "u(S) :- S = #sum {{ X,f(P) : r(P,X) }}.", ["r2"]),
    ("body_use", "u(P) :- r(P,X), X >= 2.", ["r2"]),
    # another element / statement with the textually identical tuple whose value can coincide with the extreme value
    ("min_twin", "#minimize {{ X@1,P : r(P,X) ; X@1,P : grp(P), X = 3 }}.", ["r2"]),
    ("weak_twin", ":~ r(P,X). [X@1,P]\n:~ grp(P), X = 3. [X@1,P]", ["r2"]),
    ("sum_twin", "u(S) :- S = #sum {{ X,P : r(P,X) ; X,P : grp(P), X = 3 }}.", ["r2"]),
    ("sum_group_weight", "u(S) :- S = #sum {{ P,X : r(P,X) }}.", ["r2"]),
    ("min_group_weight", "#minimize {{ P@1,X : r(P,X) }}.", ["r2"]),
    ("weak_value_prio", ":~ r(P,X), X > 0. [X@X,P]", ["r2"]),
    ("weak_value_tuple", ":~ r(P,X). [X@1,P,X]", ["r2"]),
    ("sum_value_tuple", "u(S) :- S = #sum {{ X,P,X : r(P,X) }}.", ["r2"]),
    ("weak_abs_tuple", ":~ r(P,X). [X@1,|P|]", ["r2"]),
    ("weak_neg_tuple", ":~ r(P,X). [X@1,-P]", ["r2"]),
    ("weak_twin_unify", ":~ r(P,X). [X@1,P]\n:~ grp(G), Y = 3. [Y@1,G]", ["r2"]),
]


def universe(qname: str, tier: str) -> list[str]:
    pre = "q" if qname == "input" else "dq"
    u = ["grp(1)", "grp(2)", f"{pre}(1,1)", f"{pre}(1,3)", f"{pre}(2,-1)", f"{pre}(2,3)"]
    if tier != "quick":
        u += [f"{pre}(1,2)"]
    if qname == "derived":
        u += ["blk(3)"]
    if qname == "choice_base":
        u = ["grp(1)", "grp(2)", "dq(1,3)", "dq(2,-1)", "dq(2,3)", "base(1,1)", "base(2,0)"]
    return u


def jobs(tier: str):
    oracle = orc("voc", costs=True, multiset=True)

    def gen():
        for qname, qdef, inp in QDEFS:
            for aname, atext, sig in agg_rules(tier):
                for fun, other in (("max", "min"), ("min", "max")):
                    rule = atext.format(F=fun, G=other)
                    for uname, utext, needs in USERS:
                        if needs and sig not in needs:
                            continue
                        if tier == "quick" and qname in ("derived", "choice_cond") and uname not in ("none", "min_guard", "sum_guard", "weak_realguard", "swapped_weak"):
                            continue
                        if tier == "quick" and qname == "input" and uname != "none":
                            continue
                        user = utext.format()
                        prog = "\n".join(x for x in (qdef, rule, user) if x)
                        yield job("C12", prog, universe(qname, tier), [config(["minmax_chains"], inp, [], oracle)],
                                  meta={"q": qname, "agg": aname, "fun": fun, "user": uname,
                                        **({"owner_only": True} if aname == "eq_swapped_aggfirst" or uname.endswith("_noguard") else {})})

    def signed_groups():
        # groups g and -g: tuple terms like |P| or P*P identify the group only up to sign
        base = "{ q(P,V) } :- dq(P,V).\nq(P,0) :- grp(P).\nr(P,X) :- grp(P), X = #max { V : q(P,V) }."
        uni = ["grp(1)", "grp(-1)", "dq(1,3)", "dq(-1,3)", "dq(-1,2)", "dq(1,5)"]
        inp = [["dq", 2], ["grp", 1]]
        for uname, user in (("abs", ":~ r(P,X). [X@1,|P|]"), ("abs_fun", ":~ r(P,X). [X@1,f(|P|)]"),
                            ("neg", ":~ r(P,X). [X@1,-P]"), ("square", ":~ r(P,X). [X@1,P*P]"),
                            ("sum_abs", "u(S) :- S = #sum { X,|P| : r(P,X) }."), ("sum_neg", "u(S) :- S = #sum { X,-P : r(P,X) }."),
                            ("min_abs", "#minimize { X@1,|P| : r(P,X) }."), ("max_abs", "#maximize { X@1,|P| : r(P,X) }."),
                            ("plain", ":~ r(P,X). [X@1,P]")):
            for fun in ("max", "min"):
                yield job("C12/signed", base.replace("#max", "#" + fun) + "\n" + user, uni,
                          [config(["minmax_chains"], inp, [], oracle)], meta={"user": uname, "fun": fun})

    yield from dedupe(gen())
    yield from dedupe(signed_groups())
