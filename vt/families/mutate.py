"""deterministic syntactic mutators for family programs.  Every variant is just another valid source program (the oracle
always compares a source with ITS OWN result), so applying a fixed list of rewrites to every program of a family is a
larger, still exhaustively enumerated family.  The rewrites add the shape dimensions that seeded changes repeatedly
exposed as gaps: statement order, literal order, signs of aggregates / conditional literals, tuple terms that are function
or arithmetic terms, comparison orientation."""

from __future__ import annotations

from typing import Callable, Iterator, Optional

from clingo.ast import (
    AST,
    ASTType,
    BinaryOperation,
    BinaryOperator,
    ComparisonOperator,
    Function,
    Guard,
    Sign,
    SymbolicTerm,
    Transformer,
)
from clingo.symbol import Number

from vt.common import parse
from vt.families.base import job

MIRROR = {
    ComparisonOperator.LessThan: ComparisonOperator.GreaterThan,
    ComparisonOperator.GreaterThan: ComparisonOperator.LessThan,
    ComparisonOperator.LessEqual: ComparisonOperator.GreaterEqual,
    ComparisonOperator.GreaterEqual: ComparisonOperator.LessEqual,
    ComparisonOperator.Equal: ComparisonOperator.Equal,
    ComparisonOperator.NotEqual: ComparisonOperator.NotEqual,
}


def _text(prg: list[AST]) -> str:
    return "\n".join(str(s) for s in prg if str(s) != "#program base.")


def rev_statements(prg: list[AST]) -> Optional[str]:
    body = [s for s in prg if s.ast_type != ASTType.Program]
    if len(body) < 2:
        return None
    return _text(list(reversed(body)))


def rev_bodies(prg: list[AST]) -> Optional[str]:
    out, changed = [], False
    for s in prg:
        if s.ast_type in (ASTType.Rule, ASTType.Minimize) and len(s.body) > 1:
            s = s.update(body=list(reversed(s.body)))
            changed = True
        out.append(s)
    return _text(out) if changed else None


def _sign_aggregates(sign: Sign) -> Callable[[list[AST]], Optional[str]]:
    def fn(prg: list[AST]) -> Optional[str]:
        out, changed = [], False
        for s in prg:
            if s.ast_type in (ASTType.Rule, ASTType.Minimize):
                body = []
                for lit in s.body:
                    if (not changed and lit.ast_type == ASTType.Literal and lit.sign == Sign.NoSign
                            and lit.atom.ast_type in (ASTType.BodyAggregate, ASTType.Aggregate)
                            and not _assigns(lit.atom)):
                        lit = lit.update(sign=sign)
                        changed = True
                    body.append(lit)
                s = s.update(body=body)
            out.append(s)
        return _text(out) if changed else None

    return fn


def _assigns(agg: AST) -> bool:
    for g in (agg.left_guard, agg.right_guard):
        if g is not None and g.comparison == ComparisonOperator.Equal and g.term.ast_type == ASTType.Variable:
            return True
    return False


def neg_condlit(prg: list[AST]) -> Optional[str]:
    out, changed = [], False
    for s in prg:
        if s.ast_type in (ASTType.Rule, ASTType.Minimize):
            body = []
            for lit in s.body:
                if not changed and lit.ast_type == ASTType.ConditionalLiteral and lit.literal.sign == Sign.NoSign:
                    lit = lit.update(literal=lit.literal.update(sign=Sign.Negation))
                    changed = True
                body.append(lit)
            s = s.update(body=body)
        out.append(s)
    return _text(out) if changed else None


class _TupleTerms(Transformer):
    """wrap the non-weight tuple terms of body aggregate elements and objectives"""

    def __init__(self, mode: str) -> None:
        self.mode = mode
        self.changed = False

    def _wrap(self, t: AST) -> AST:
        if t.ast_type != ASTType.Variable:
            return t
        self.changed = True
        if self.mode == "fun":
            return Function(t.location, "f", [t], False)
        return BinaryOperation(t.location, BinaryOperator.Division, t, SymbolicTerm(t.location, Number(3)))

    def visit_BodyAggregateElement(self, node: AST) -> AST:  # pylint: disable=invalid-name
        terms = list(node.terms)
        if len(terms) > 1:
            terms = [terms[0]] + [self._wrap(t) for t in terms[1:]]
        return node.update(terms=terms)

    def visit_Minimize(self, node: AST) -> AST:  # pylint: disable=invalid-name
        node = node.update(**self.visit_children(node))
        return node.update(terms=[self._wrap(t) for t in node.terms])


def _tuple(mode: str) -> Callable[[list[AST]], Optional[str]]:
    def fn(prg: list[AST]) -> Optional[str]:
        tr = _TupleTerms(mode)
        out = [tr.visit(s) for s in prg]
        return _text(out) if tr.changed else None

    return fn


class _Mirror(Transformer):
    def __init__(self) -> None:
        self.changed = False

    def visit_Comparison(self, node: AST) -> AST:  # pylint: disable=invalid-name
        if len(node.guards) != 1:
            return node
        g = node.guards[0]
        if g.comparison in (ComparisonOperator.Equal, ComparisonOperator.NotEqual) and node.term.ast_type == ASTType.Variable:
            return node  # keep assignments readable
        self.changed = True
        return node.update(term=g.term, guards=[Guard(MIRROR[g.comparison], node.term)])


def mirror_comparisons(prg: list[AST]) -> Optional[str]:
    tr = _Mirror()
    out = [tr.visit(s) for s in prg]
    return _text(out) if tr.changed else None


def one_line(prg: list[AST]) -> Optional[str]:
    body = [s for s in prg if s.ast_type != ASTType.Program]
    if len(body) < 2:
        return None
    return " ".join(str(s) for s in body)


MUTATORS: list[tuple[str, Callable[[list[AST]], Optional[str]]]] = [
    ("rev_statements", rev_statements),
    ("rev_bodies", rev_bodies),
    ("not_aggregate", _sign_aggregates(Sign.Negation)),
    ("notnot_aggregate", _sign_aggregates(Sign.DoubleNegation)),
    ("not_condlit", neg_condlit),
    ("tuple_fun", _tuple("fun")),
    ("tuple_div", _tuple("div")),
    ("mirror_cmp", mirror_comparisons),
    ("one_line", one_line),
]


def variants(jobs, names: Optional[set] = None) -> Iterator[dict]:
    """for every job: one variant per applicable mutator (same universe and configurations)"""
    for j in jobs:
        try:
            prg = parse(j["prog"])
        except RuntimeError:
            continue
        for name, fn in MUTATORS:
            if names is not None and name not in names:
                continue
            try:
                text = fn(prg)
            except Exception:  # pylint: disable=broad-except
                text = None
            if not text or text == j["prog"]:
                continue
            yield job(j["family"] + "~" + name, text, j["universe"], j["configs"], consts=j["consts"],
                      max_facts=j["max_facts"], checks=j["checks"], meta=dict(j["meta"], mutator=name))
