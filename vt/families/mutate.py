"""deterministic syntactic mutators for family programs.  Every variant is just another valid source program (the oracle
always compares a source with ITS OWN result), so applying a fixed list of rewrites to every program of a family is a
larger, still exhaustively enumerated family.  The rewrites add the shape dimensions that seeded changes repeatedly
exposed as gaps: statement order, literal order, signs of aggregates / conditional literals, tuple terms that are function
or arithmetic terms, comparison orientation."""

from __future__ import annotations

from typing import Callable, Iterator, Optional

from clingo.ast import (
    AST,
    ASTType,
    BinaryOperation,
    BinaryOperator,
    ComparisonOperator,
    Function,
    Guard,
    Sign,
    SymbolicTerm,
    Transformer,
)
from clingo.symbol import Number

from vt.common import parse
from vt.families.base import job

MIRROR = {
    ComparisonOperator.LessThan: ComparisonOperator.GreaterThan,
    ComparisonOperator.GreaterThan: ComparisonOperator.LessThan,
    ComparisonOperator.LessEqual: ComparisonOperator.GreaterEqual,
    ComparisonOperator.GreaterEqual: ComparisonOperator.LessEqual,
    ComparisonOperator.Equal: ComparisonOperator.Equal,
    ComparisonOperator.NotEqual: ComparisonOperator.NotEqual,
}


def _text(prg: list[AST]) -> str:
    return "\n".join(str(s) for s in prg if str(s) != "#program base.")


def rev_statements(prg: list[AST]) -> Optional[str]:
    body = [s for s in prg if s.ast_type != ASTType.Program]
    if len(body) < 2:
        return None
    return _text(list(reversed(body)))


def rev_bodies(prg: list[AST]) -> Optional[str]:
    out, changed = [], False
    for s in prg:
        if s.ast_type in (ASTType.Rule, ASTType.Minimize) and len(s.body) > 1:
            s = s.update(body=list(reversed(s.body)))
            changed = True
        out.append(s)
    return _text(out) if changed else None


def _sign_aggregates(sign: Sign) -> Callable[[list[AST]], Optional[str]]:
    def fn(prg: list[AST]) -> Optional[str]:
        out, changed = [], False
        for s in prg:
            if s.ast_type in (ASTType.Rule, ASTType.Minimize):
                body = []
                for lit in s.body:
                    if (not changed and lit.ast_type == ASTType.Literal and lit.sign == Sign.NoSign
                            and lit.atom.ast_type in (ASTType.BodyAggregate, ASTType.Aggregate)
                            and not _assigns(lit.atom)):
                        lit = lit.update(sign=sign)
                        changed = True
                    body.append(lit)
                s = s.update(body=body)
            out.append(s)
        return _text(out) if changed else None

    return fn


def _assigns(agg: AST) -> bool:
    for g in (agg.left_guard, agg.right_guard):
        if g is not None and g.comparison == ComparisonOperator.Equal and g.term.ast_type == ASTType.Variable:
            return True
    return False


def neg_condlit(prg: list[AST]) -> Optional[str]:
    out, changed = [], False
    for s in prg:
        if s.ast_type in (ASTType.Rule, ASTType.Minimize):
            body = []
            for lit in s.body:
                if not changed and lit.ast_type == ASTType.ConditionalLiteral and lit.literal.sign == Sign.NoSign:
                    lit = lit.update(literal=lit.literal.update(sign=Sign.Negation))
                    changed = True
                body.append(lit)
            s = s.update(body=body)
        out.append(s)
    return _text(out) if changed else None


class _TupleTerms(Transformer):
    """wrap the non-weight tuple terms of body aggregate elements and objectives"""

    def __init__(self, mode: str) -> None:
        self.mode = mode
        self.changed = False

    def _wrap(self, t: AST) -> AST:
        if t.ast_type != ASTType.Variable:
            return t
        self.changed = True
        if self.mode == "fun":
            return Function(t.location, "f", [t], False)
        return BinaryOperation(t.location, BinaryOperator.Division, t, SymbolicTerm(t.location, Number(3)))

    def visit_BodyAggregateElement(self, node: AST) -> AST:  # pylint: disable=invalid-name
        terms = list(node.terms)
        if len(terms) > 1:
            terms = [terms[0]] + [self._wrap(t) for t in terms[1:]]
        return node.update(terms=terms)

    def visit_Minimize(self, node: AST) -> AST:  # pylint: disable=invalid-name
        node = node.update(**self.visit_children(node))
        return node.update(terms=[self._wrap(t) for t in node.terms])


def _tuple(mode: str) -> Callable[[list[AST]], Optional[str]]:
    def fn(prg: list[AST]) -> Optional[str]:
        tr = _TupleTerms(mode)
        out = [tr.visit(s) for s in prg]
        return _text(out) if tr.changed else None

    return fn


class _Mirror(Transformer):
    def __init__(self) -> None:
        self.changed = False

    def visit_Comparison(self, node: AST) -> AST:  # pylint: disable=invalid-name
        if len(node.guards) != 1:
            return node
        g = node.guards[0]
        if g.comparison in (ComparisonOperator.Equal, ComparisonOperator.NotEqual) and node.term.ast_type == ASTType.Variable:
            return node  # keep assignments readable
        self.changed = True
        return node.update(term=g.term, guards=[Guard(MIRROR[g.comparison], node.term)])


def mirror_comparisons(prg: list[AST]) -> Optional[str]:
    tr = _Mirror()
    out = [tr.visit(s) for s in prg]
    return _text(out) if tr.changed else None


def one_line(prg: list[AST]) -> Optional[str]:
    body = [s for s in prg if s.ast_type != ASTType.Program]
    if len(body) < 2:
        return None
    return " ".join(str(s) for s in body)


# ---------------------------------------------------------------------------------------------
# second generation: mutators that change the meaning of the program (clingo is asked again for the reference
# semantics), may extend the universe / the declared inputs, and may produce SEVERAL variants per program.
# A mutator of this kind returns a list of {"prog": text, "universe": [...facts added...], "inp": [[name, arity], ...]}.


def _vars(node: AST) -> list[str]:
    seen: list[str] = []

    class _V(Transformer):
        def visit_Variable(self, n: AST) -> AST:  # pylint: disable=invalid-name
            if n.name != "_" and n.name not in seen:
                seen.append(n.name)
            return n

    _V().visit(node)
    return seen


class _Rename(Transformer):
    def __init__(self, old: str, new: str) -> None:
        self.old, self.new = old, new

    def visit_Variable(self, n: AST) -> AST:  # pylint: disable=invalid-name
        return n.update(name=self.new) if n.name == self.old else n


def notnot_literals(prg: list[AST]) -> list[dict]:
    """one variant per positive body literal (symbolic atom or assigning aggregate) made doubly negated; variants in
    which a variable loses its only binder are unsafe and are rejected by clingo"""
    out = []
    for si, s in enumerate(prg):
        if s.ast_type not in (ASTType.Rule, ASTType.Minimize):
            continue
        for li, lit in enumerate(s.body):
            if lit.ast_type != ASTType.Literal or lit.sign != Sign.NoSign:
                continue
            if lit.atom.ast_type == ASTType.SymbolicAtom or (
                    lit.atom.ast_type in (ASTType.BodyAggregate, ASTType.Aggregate) and _assigns(lit.atom)):
                body = list(s.body)
                body[li] = lit.update(sign=Sign.DoubleNegation)
                cp = list(prg)
                cp[si] = s.update(body=body)
                out.append({"prog": _text(cp)})
    return out[:6]


def _derived(prg: list[AST]) -> list[tuple[str, int]]:
    preds: list[tuple[str, int]] = []

    def add(atom: AST) -> None:
        if atom.ast_type == ASTType.SymbolicAtom and atom.symbol.ast_type == ASTType.Function:
            key = (atom.symbol.name, len(atom.symbol.arguments))
            if key not in preds and not key[0].startswith("-"):
                preds.append(key)

    for s in prg:
        if s.ast_type != ASTType.Rule:
            continue
        h = s.head
        if h.ast_type == ASTType.Literal and h.sign == Sign.NoSign:
            add(h.atom)
        elif h.ast_type in (ASTType.Aggregate, ASTType.Disjunction):
            for e in h.elements:
                add(e.literal.atom)
        elif h.ast_type == ASTType.HeadAggregate:
            for e in h.elements:
                add(e.condition.literal.atom)
    return preds


def _consts(universe: list[str]) -> list[str]:
    import re  # pylint: disable=import-outside-toplevel

    ints, syms = [], []
    for f in universe:
        for tok in re.findall(r"[(,]\s*(-?\d+|[a-z]\w*)\s*(?=[,)])", f):
            (ints if tok.lstrip("-").isdigit() else syms).append(tok)
    ints = sorted(set(ints), key=int)
    pick = ints[:1] + ints[-1:] if ints else []
    pick += sorted(set(syms))[:1]
    return pick or ["1", "2"]


def _facts(name: str, arity: int, universe: list[str]) -> list[str]:
    cs = _consts(universe)
    a, b = cs[0], cs[-1]
    if arity == 0:
        return [name]
    rows = [[a] * arity, [b if i == arity - 1 else a for i in range(arity)]]
    return sorted({f"{name}({','.join(r)})" for r in rows})


def _args(arity: int) -> str:
    return ",".join(f"XD{i}" for i in range(arity))


def extra_definition(prg: list[AST], universe: list[str]) -> list[dict]:
    """every derived predicate gets one more definition: a rule from a new input predicate, a body-less choice over it,
    or a fact"""
    out = []
    base = _text(prg)
    for name, arity in _derived(prg)[:3]:
        if name.startswith("__"):
            continue
        xd = f"xd_{name}"
        atom = f"{name}({_args(arity)})" if arity else name
        xatom = f"{xd}({_args(arity)})" if arity else xd
        facts = _facts(xd, arity, universe)
        out.append({"prog": f"{base}\n{atom} :- {xatom}.", "universe": facts, "inp": [[xd, arity]], "tag": "rule"})
        out.append({"prog": f"{base}\n{{ {atom} : {xatom} }}.", "universe": facts, "inp": [[xd, arity]], "tag": "choice"})
        out.append({"prog": f"{base}\n{_facts(name, arity, universe)[-1]}.", "tag": "fact"})
    return out


def input_and_derived(prg: list[AST], universe: list[str]) -> list[dict]:
    """a derived predicate is ALSO declared as input predicate and the instance has atoms of it"""
    out = []
    base = _text(prg)
    for name, arity in _derived(prg)[:3]:
        if name.startswith("__"):
            continue
        out.append({"prog": base, "universe": _facts(name, arity, universe), "inp": [[name, arity]]})
    return out


def rename_clash(prg: list[AST]) -> list[dict]:
    """alpha-rename one variable of a statement to a variable name used by ANOTHER statement (meaning unchanged):
    names that are local in one statement coincide with names that are global in another"""
    out = []
    stms = [(i, s) for i, s in enumerate(prg) if s.ast_type in (ASTType.Rule, ASTType.Minimize)]
    allvars = {i: _vars(s) for i, s in stms}
    for i, s in stms:
        others: list[str] = []
        for j, _ in stms:
            if j != i:
                others += [v for v in allvars[j] if v not in others]
        targets = [g for g in others if g not in allvars[i]][:3]
        for v in allvars[i][:5]:
            for g in targets:
                cp = list(prg)
                cp[i] = _Rename(v, g).visit(s)
                out.append({"prog": _text(cp)})
    # spread over the candidates instead of taking the first ones only
    step = max(1, len(out) // 10)
    return out[::step][:10]


def priority_variable(prg: list[AST]) -> list[dict]:
    """a tuple variable of an objective becomes its priority"""
    out = []
    for si, s in enumerate(prg):
        if s.ast_type != ASTType.Minimize:
            continue
        for ti, t in enumerate(s.terms):
            if t.ast_type == ASTType.Variable:
                cp = list(prg)
                cp[si] = s.update(priority=t, terms=[x for k, x in enumerate(s.terms) if k != ti])
                out.append({"prog": _text(cp)})
                cp = list(prg)
                cp[si] = s.update(priority=t)
                out.append({"prog": _text(cp)})
                break
    return out[:4]


def twin_objective(prg: list[AST], universe: list[str]) -> list[dict]:
    """a second objective element with the textually identical weight, priority and tuple, fed by an input predicate"""
    out = []
    base = _text(prg)
    for s in prg:
        if s.ast_type != ASTType.Minimize:
            continue
        vs = _vars(s.update(body=[]))
        if not vs or len(vs) > 3:
            continue
        xo = "xo_twin"
        facts = _facts(xo, len(vs), universe)
        tup = ",".join(str(t) for t in s.terms)
        out.append({"prog": f"{base}\n:~ {xo}({','.join(vs)}). [{s.weight}@{s.priority}{',' + tup if tup else ''}]",
                    "universe": facts, "inp": [[xo, len(vs)]]})
        break
    return out


MUTATORS2 = [
    ("notnot_literal", notnot_literals, False),
    ("extra_definition", extra_definition, True),
    ("input_and_derived", input_and_derived, True),
    ("rename_clash", rename_clash, False),
    ("priority_variable", priority_variable, False),
    ("twin_objective", twin_objective, True),
]


def variants2(jobs, names: Optional[set] = None) -> Iterator[dict]:
    """second-generation variants (see above); the configurations get the additional input predicates"""
    for j in jobs:
        try:
            prg = [s for s in parse(j["prog"])]
        except RuntimeError:
            continue
        for name, fn, needs_universe in MUTATORS2:
            if names is not None and name not in names:
                continue
            try:
                res = fn(prg, j["universe"]) if needs_universe else fn(prg)
            except Exception:  # pylint: disable=broad-except
                res = []
            for k, v in enumerate(res):
                if not v.get("prog") or (v["prog"] == j["prog"] and not v.get("inp")):
                    continue
                cfgs = []
                for c in j["configs"]:
                    c = dict(c)
                    if v.get("inp") and isinstance(c["inp"], list):
                        c["inp"] = c["inp"] + [x for x in v["inp"] if x not in c["inp"]]
                    elif v.get("inp"):
                        continue  # auto-detected inputs cannot be extended
                    cfgs.append(c)
                if not cfgs:
                    continue
                uni = list(j["universe"]) + [f for f in v.get("universe", []) if f not in j["universe"]]
                yield job(j["family"] + "~" + name, v["prog"], uni, cfgs, consts=j["consts"],
                          max_facts=j["max_facts"], checks=j["checks"],
                          meta=dict(j["meta"], mutator=name, variant=k, tag=v.get("tag")))




MUTATORS: list[tuple[str, Callable[[list[AST]], Optional[str]]]] = [
    ("rev_statements", rev_statements),
    ("rev_bodies", rev_bodies),
    ("not_aggregate", _sign_aggregates(Sign.Negation)),
    ("notnot_aggregate", _sign_aggregates(Sign.DoubleNegation)),
    ("not_condlit", neg_condlit),
    ("tuple_fun", _tuple("fun")),
    ("tuple_div", _tuple("div")),
    ("mirror_cmp", mirror_comparisons),
    ("one_line", one_line),
]


def variants(jobs, names: Optional[set] = None) -> Iterator[dict]:
    """for every job: one variant per applicable mutator (same universe and configurations)"""
    for j in jobs:
        try:
            prg = parse(j["prog"])
        except RuntimeError:
            continue
        for name, fn in MUTATORS:
            if names is not None and name not in names:
                continue
            try:
                text = fn(prg)
            except Exception:  # pylint: disable=broad-except
                text = None
            if not text or text == j["prog"]:
                continue
            yield job(j["family"] + "~" + name, text, j["universe"], j["configs"], consts=j["consts"],
                      max_facts=j["max_facts"], checks=j["checks"], meta=dict(j["meta"], mutator=name))
