"""C14 math: bodies of comparisons and aggregates over integers, single(math)"""

from __future__ import annotations

from vt.families.base import config, dedupe, job, orc, subsets

CMP = [
    "X = Y+1",
    "X = 2*Y",
    "X = Y*3",
    "Y = X/2",
    "X = Y\\\\2",
    "X = |Y|",
    "X = Y**2",
    "X < Y",
    "X != Y",
    "X + Y = 2",
    "X - Y > 0",
    "X = n",
    "2*X = Y",
    "X*Y = 0",
    "X+1 <= Y+2",
    "W = X+Y",
    "W = X-1",
    "W > 0",
    "not X = Y",
    "X = -Y",
    "X >= Y+1",
    "X <= Y+1",
    "not X < Y+1",
    "W >= X+Y",
    "Y >= 2",
]
AGG = [
    "N = #sum { Z : s(Z) }",
    "M = #count { Z : s(Z) }",
    "N = #sum+ { Z : s(Z) }",
    "N = #min { Z : s(Z) }",
    "N = #max { Z : s(Z) }",
    "M = #sum { 1,Z : s(Z) ; 1,Z : t(Z) }",
    "M = #sum+ { Z,t : t(Z) }",
    "N + M = 3",
    "N > X",
    "N = X",
    "N = M",
    "N - M > 0",
    "M = 2*N",
    "1 <= #sum { Z : s(Z) } <= 3",
    "not 1 <= #sum { Z : s(Z) } <= 3",
    "not 2 <= #count { Z : t(Z) } < 3",
    "not #sum { Z : s(Z) } > 2",
    "not not #sum { Z : s(Z) } > 2",
    "#sum { Z : s(Z) } != X",
    "X <= #sum+ { Z : t(Z) }",
    "N = #sum { Z : s(Z) }; K = #max { Z : t(Z) }",
    "K = #max { Z : t(Z) }; N = #sum { Z : s(Z) }",
    "M = #count { Z : s(Z) }; K = #min { Z : t(Z) }",
    "N = #sum { Z : s(Z), Z > X }",
    "M = #count { Z : s(Z), Z != Y }",
    "X <= #sum+ { Z : t(Z), Z < Y }",
    "X - N > 0",
    "X = 3 - N",
    "2*N < X",
    "N = #sum+ { Z : s(Z) }; X - N > 1",
    "M = #sum+ { Z,t : t(Z) }; Y = 2 - M",
    "N = #sum { Z : s(Z) }; N*X > 1",
    "M = #count { Z : s(Z) }; M*Y = 2",
    "N*X > 1",
    "N < X",
    "N*Y = 2",
    "N*N > X",
    "N + K = X",
    "N + K > 2",
    "M + K = 3",
    "X = N - K",
    # two relations over one aggregate value with different non-unit coefficients (combined into a two-sided guard)
    "N = #sum { Z : s(Z) }; 2*N > 3; 3*N < 10",
    "N = #sum { Z : s(Z) }; 2*N < X; 3*N > 4",
    "M = #count { Z : s(Z) }; 2*M >= 2; 3*M <= 7",
    "N = #sum { Z : s(Z) }; 2*N > 1; 2*N < 5",
    "N = #sum { Z : s(Z) }; 3*N >= X; 2*N <= 4",
]
MENU = CMP + AGG

BINDERS = [("pq", ["p(X)", "q(Y)"]), ("p", ["p(X)"]), ("none", [])]

CONTEXTS = [
    ("r0", "a :- {B}."),
    ("rX", "a(X) :- {B}."),
    ("rXY", "a(X,Y) :- {B}."),
    ("rN", "a(N) :- {B}."),
    ("rW", "a(W) :- {B}."),
    ("rNM", "a(N,M) :- {B}."),
    ("c", ":- {B}."),
    ("w", ":~ {B}. [X@1,Y]"),
    ("wN", ":~ {B}. [N@1]"),
    ("rec", "p(W) :- {B}; W < 4; W > -4."),
    # a variable bound only by an equality and used in a head condition
    ("hc_choice", "{{ a(X) : ds(D) }} :- {B}; D = X + 1."),
    ("hc_disj", "a(X) : ds(D) ; b(X) :- {B}; D = X + 1."),
    ("hc_hagg", "1 #count {{ Z : a(Z) : ds(Z), Z < D }} :- {B}; D = X + 1."),
]

BASE = "{ s(Z) : ds(Z) }. { t(Z) : ds(Z) }."
IN0 = [["p", 1], ["q", 1], ["ds", 1]]


def jobs(tier: str):
    kmax = 2 if tier == "quick" else 3
    oracle = orc("voc", costs=True, multiset=True)
    universe = ["p(-2)", "p(0)", "p(1)", "p(3)", "q(-1)", "q(0)", "q(2)", "ds(1)", "ds(2)", "ds(-1)"]
    if tier == "quick":
        universe = ["p(-2)", "p(0)", "p(3)", "q(-1)", "q(2)", "ds(1)", "ds(2)", "ds(-1)"]
    consts_menu = [[], [("n", "0")], [("n", "3")]] if tier != "quick" else [[]]

    def gen():
        core3 = set(CMP[:6] + CMP[14:17] + AGG[:4])  # three literals only from a 13-literal core (math is slow)
        for lits in subsets(MENU, 1, kmax):
            if len(lits) == 3 and (not set(lits) <= core3 or sum(1 for l in lits if l in AGG) > 2):
                continue
            text = " ".join(lits)
            uses_agg = "s(Z)" in text or "t(Z)" in text
            for bname, binders in BINDERS:
                if tier == "quick" and bname == "none":
                    continue
                body = "; ".join(binders + list(lits))
                for cname, ctx in CONTEXTS:
                    if len(lits) == 3 and cname not in ("rX", "c", "w"):
                        continue
                    if len(lits) == 2 and cname in ("rXY", "rNM", "rW", "wN", "rec") and tier != "quick":
                        continue
                    if tier == "quick" and cname not in ("rX", "rN", "w") and not (cname.startswith("hc_") and len(lits) == 1):
                        continue
                    if cname.startswith("hc_") and bname == "none":
                        continue
                    if tier == "quick" and bname != "pq" and len(lits) == 2:
                        continue
                    stm = ctx.format(B=body)
                    const = "#const n = 1.\n" if "n" in text.replace("not", "").replace("#min", "").replace("#count", "") and "X = n" in lits else ""
                    prog = const + (BASE + "\n" if uses_agg else "") + stm
                    for consts in (consts_menu if const else [[]]):
                        yield job("C14", prog, universe, [config(["math"], IN0, [], oracle)], consts=consts,
                                  max_facts=None, meta={"lits": list(lits), "binders": bname, "ctx": cname})

    yield from dedupe(gen())
