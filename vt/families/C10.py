"""C10 duplication: a shared literal set placed in two or three statements/contexts, single(duplication)"""

from __future__ import annotations

import re
from itertools import product

from vt.families.base import config, dedupe, job, orc

SETS = [
    ("pq", ["p(X,Y)", "q(Y)"]),
    ("pq_cmp", ["p(X,Y)", "q(Y)", "X < Y"]),
    ("p_notq", ["p(X,Y)", "not q(X)"]),
    ("panon_q", ["p(X,_)", "q(X)"]),
    ("q_cond", ["q(X)", "g(Z) : p(X,Z)"]),
    ("zero", ["z0", "z1"]),
    ("pp", ["p(X,Y)", "p(Y,X)"]),
    ("assign", ["q(X)", "X = Y+1", "q(Y)"]),
    ("assign_new", ["q(X)", "Y = X+1"]),
    ("pq_notq", ["p(X,Y)", "q(Y)", "not q(X)"]),
    ("p_agg", ["p(X,Y)", "1 <= #sum { 1,W : p(Y,W) }"]),
    ("qq_neq", ["q(X)", "q(Y)", "X != Y"]),
    ("p_eq", ["p(X,Y)", "X = Y"]),
    ("q_interval", ["q(X)", "Y = 1..2"]),
    ("rec", ["p(X,Y)", "rec(X)"]),
    ("interval_join", ["q(X)", "Y = 1..2", "q(Y)"]),
    ("interval_two", ["Y = 1..2", "q(Y)", "e(Y)"]),
    ("pool_join", ["q(X)", "Y = (1;2)", "q(Y)"]),
    ("assign_fun", ["q(X)", "Y = f(X)", "g(Y)"]),
    ("assign_chain", ["q(Z)", "Y = Z+1", "X = Y*2", "g(X)"]),
    ("assign_twice", ["q(Y)", "e(Z)", "X = Y", "X = Z", "g(X)"]),
    ("assign_twice_arith", ["q(Y)", "e(Z)", "X = Y+1", "X = 2*Z"]),
    ("assign_rev_chain", ["q(Z)", "X = Y*2", "Y = Z+1", "g(X)"]),
]

# {S} literal set, {E} optional extra, variables X,Y (renamed per occurrence), {I} occurrence index
CONTEXTS = [
    ("body0", "h{I} :- {S}{E}."),
    ("bodyX", "h{I}(X) :- {S}{E}."),
    ("bodyXY", "h{I}(X,Y) :- {S}{E}."),
    ("cond", "h{I} :- e(X); g(Y) : {SC}{EC}."),
    ("condloc", "h{I} :- e(_); g(Y) : {SC}{EC}."),
    ("agg", "h{I}(N) :- N = #sum {{ 1,X,Y : {SC}{EC} }}."),
    ("aggw", "h{I} :- 2 <= #sum {{ Y,X : {SC}{EC} }}."),
    ("aggglob", "h{I}(X) :- e(X); 1 <= #sum {{ 1,Y : {SC}{EC} }}."),
    ("nagg", "h{I} :- e(X); not 1 <= #sum {{ 1,Y : {SC}{EC} }}."),
    ("nnagg", "h{I}(X) :- e(X); not not 1 <= #sum {{ 1,Y : {SC}{EC} }}."),
    ("ncond", "h{I} :- e(X); not g(Y) : {SC}{EC}."),
    ("weak", ":~ {S}{E}. [1@1,X]"),
    ("weakXY", ":~ {S}{E}. [Y@1,X,{I}]"),
    ("constraint", ":- {S}{E}; e(X)."),
]

EXTRAS = [("none", None), ("eX", "e(X)"), ("noteY", "not e(Y)"), ("cmp", "X > 1")]
RENAMES = [("id", {}), ("swap", {"X": "Y", "Y": "X"}), ("ab", {"X": "A", "Y": "B"}), ("xz", {"Y": "Z", "Z": "Y"})]

IN0 = [["p", 2], ["q", 1], ["e", 1], ["g", 1], ["z0", 0], ["z1", 0]]
REC = "rec(X) :- q(X), e(X). rec(Y) :- p(X,Y), rec(X), e(Y)."


def rename(text: str, ren: dict) -> str:
    if not ren:
        return text
    return re.sub(r"\b([A-Z])\b", lambda m: ren.get(m.group(1), m.group(1)), text)


def occurrence(ctx: str, lits: list[str], extra, ren: dict, idx: int):
    s = "; ".join(lits)
    sc = ", ".join(lits) if not any(":" in l for l in lits) else None
    if ("{SC}" in ctx) and sc is None:
        return None
    e = f"; {extra}" if extra else ""
    ec = f", {extra}" if extra else ""
    text = ctx.format(S=s, SC=sc, E=e, EC=ec, I=idx)
    return rename(text, ren)


def jobs(tier: str):
    quick = tier == "quick"
    oracle = orc("voc", costs=True, multiset=True)
    universe = ["p(1,2)", "p(2,1)", "p(2,2)", "q(1)", "q(2)", "e(1)", "e(2)", "g(1)"]

    def gen():
        for sname, lits in SETS:
            uni = list(universe)
            if sname == "zero":
                uni = ["z0", "z1", "e(1)", "g(1)", "q(1)"]
            ctxs = CONTEXTS if not quick else [c for c in CONTEXTS if c[0] not in ("condloc", "aggw", "weakXY")]
            for (c1n, c1), (c2n, c2) in product(ctxs, ctxs):
                if quick and c1n > c2n:
                    continue
                for (e1n, e1), (e2n, e2) in product(EXTRAS[:1] if quick else EXTRAS[:2], EXTRAS):
                    if quick and e2n == "cmp":
                        continue
                    for rn, ren in RENAMES:
                        if quick and rn == "xz":
                            continue
                        o1 = occurrence(c1, lits, e1, {}, 1)
                        o2 = occurrence(c2, lits, e2, ren, 2)
                        if o1 is None or o2 is None:
                            continue
                        prog = (REC + "\n" if sname == "rec" else "") + o1 + "\n" + o2
                        yield job("C10", prog, uni, [config(["duplication"], IN0, [], oracle)],
                                  meta={"set": sname, "ctx": [c1n, c2n], "extra": [e1n, e2n], "ren": rn})
            # three occurrences
            if not quick or sname in ("pq", "assign", "q_interval", "p_eq"):
                for c3n, c3 in ctxs:
                    o1 = occurrence(CONTEXTS[1][1], lits, None, {}, 1)
                    o2 = occurrence(CONTEXTS[8][1], lits, "e(X)", RENAMES[2][1], 2)
                    o3 = occurrence(c3, lits, "not e(Y)", RENAMES[1][1], 3)
                    if None in (o1, o2, o3):
                        continue
                    prog = (REC + "\n" if sname == "rec" else "") + "\n".join((o1, o2, o3))
                    yield job("C10/three", prog, uni, [config(["duplication"], IN0, [], oracle)],
                              meta={"set": sname, "ctx3": c3n})

    def scope():
        # a scoped literal (conditional literal / aggregate) of the set whose variable X is, per occurrence, bound
        # outside the set (global in the rule), anonymous outside, or bound inside the set
        scoped = ["g(1) : q(X)", "g(Y) : p(X,Y)", "1 <= #count { Y : p(X,Y) }", "not g(Y) : p(X,Y)"]
        comps = ["z0", "e(Z)", "q(X)"]
        outs = [("glob", "h{I} :- e(X); {S}."), ("anon", "h{I} :- e(_); {S}."), ("other", "h{I} :- e(W); {S}."),
                ("head", "h{I}(X) :- e(X); {S}."), ("weak", ":~ e(X); {S}. [1@{I},X]")]
        uni = ["p(1,2)", "p(2,1)", "p(2,2)", "q(1)", "q(2)", "e(1)", "e(2)", "g(1)", "z0"]
        for sc in scoped:
            for comp in comps:
                for (o1n, o1), (o2n, o2) in product(outs, outs):
                    if o1n > o2n:
                        continue
                    prog = o1.format(I=1, S=f"{sc}; {comp}") + "\n" + rename(o2.format(I=2, S=f"{sc}; {comp}"),
                                                                             RENAMES[2][1])
                    yield job("C10/scope", prog, uni, [config(["duplication"], IN0, [], oracle)],
                              meta={"scoped": sc, "comp": comp, "outs": [o1n, o2n]})

    def nonbinding():
        # the shared set binds none of its variables; each occurrence has its own binder next to the set
        sets = [["X > 1", "not q(X)"], ["e(2*X)", "not q(X)"], ["X < 3", "X > 0"], ["X != Y", "not p(X,Y)"],
                ["not e(X)", "not q(X)"], ["not not p(X,Z)", "q(Z)"], ["not not p(Z,X)", "not not q(Z)", "e(Z)"],
                ["q(1..X)", "not e(X)"], ["e(X&1)", "not q(X)"], ["e(~X)", "not q(X)"], ["e((X/2)+1)", "not q(X)"],
                ["e(X?1)", "not q(X)"], ["e(-X+3)", "not q(X)"]]
        ctxs = [("cond", "h{I} :- g(Z) : {B}, {SC}."), ("agg", "h{I}(N) :- N = #sum {{ 1,X : {B}, {SC} }}."),
                ("body", "h{I} :- {B}; {S}."), ("weak", ":~ {B}; {S}. [1@{I},X]")]
        uni = ["p(1,2)", "p(2,1)", "p(2,2)", "q(1)", "q(2)", "e(1)", "e(2)", "e(4)", "g(1)"]
        for lits in sets:
            xy = any("Y" in l for l in lits)
            binders = ["p(X,Y)", "p(Y,X)"] if xy else ["e(X)", "g(X)", "p(X,_)"]
            for (c1n, c1), (c2n, c2) in product(ctxs, ctxs):
                if c1n > c2n:
                    continue
                for b1, b2 in product(binders, binders):
                    if b1 > b2:
                        continue
                    o1 = c1.format(I=1, B=b1, S="; ".join(lits), SC=", ".join(lits))
                    o2 = rename(c2.format(I=2, B=b2, S="; ".join(lits), SC=", ".join(lits)), RENAMES[2][1])
                    yield job("C10/nonbinding", o1 + "\n" + o2, uni, [config(["duplication"], IN0, [], oracle)],
                              meta={"set": lits, "ctx": [c1n, c2n], "binders": [b1, b2]})

    yield from dedupe(gen())
    yield from dedupe(scope())
    yield from dedupe(nonbinding())
