"""C13 sum_chains: at-most-one definitions x extras x uses of the value"""

from __future__ import annotations

from vt.families.base import config, dedupe, job, orc

# (name, text, extra input predicates)
DEFS = [
    ("ub1", "{ sh(D,L) : ps(D,L) } 1 :- day(D).", []),
    ("lt2", "{ sh(D,L) : ps(D,L) } < 2 :- day(D).", []),
    ("ge_left", "1 >= { sh(D,L) : ps(D,L) } :- day(D).", []),
    ("eq1", "{ sh(D,L) : ps(D,L) } = 1 :- day(D).", []),
    ("one_one", "1 { sh(D,L) : ps(D,L) } 1 :- day(D).", []),
    ("gt_left", "2 > { sh(D,L) : ps(D,L) } :- day(D).", []),
    ("count", "#count { L : sh(D,L) : ps(D,L) } <= 1 :- day(D).", []),
    ("sum1", "#sum { 1,L : sh(D,L) : ps(D,L) } <= 1 :- day(D).", []),
    ("sum2", "#sum { 2,L : sh(D,L) : ps(D,L) } <= 2 :- day(D).", []),
    ("sum2_ub1", "#sum { 2,L : sh(D,L) : ps(D,L) } <= 1 :- day(D).", []),
    ("sum0", "#sum { 0,L : sh(D,L) : ps(D,L) } <= 1 :- day(D).", []),
    ("sumneg", "#sum { -1,L : sh(D,L) : ps(D,L) } <= 1 :- day(D).", []),
    ("ub2", "{ sh(D,L) : ps(D,L) } 2 :- day(D).", []),
    ("extra_global", "{ sh(D,L) : ps(D,L) } 1 :- day(D), w(W).", [["w", 1]]),
    ("nobody", "{ sh(D,L) : ps(D,L) } 1.", []),
    ("cond_neg", "{ sh(D,L) : ps(D,L), not bad(L) } 1 :- day(D).", [["bad", 1]]),
    ("two_elems", "{ sh(D,L) : ps(D,L) ; sh(D,L) : alt(D,L) } 1 :- day(D).", [["alt", 2]]),
    ("two_preds", "{ sh(D,L) : ps(D,L) ; oth(D) } 1 :- day(D).", []),
    ("sum_one_one", "1 #sum { 1,L : sh(D,L) : ps(D,L) } 1 :- day(D).", []),
    ("sum_tuple_const", "#sum { 1 : sh(D,L) : ps(D,L) } <= 1 :- day(D).", []),
    ("count_tuple_group", "#count { D : sh(D,L) : ps(D,L) } <= 1 :- day(D).", []),
    ("all_global", "{ sh(D,L) } 1 :- ps(D,L).", []),
    ("local_first", "{ sh(L,D) : ps(D,L) } 1 :- day(D).", []),
    ("hidden_global", "{ sh(D,L) : ps(D,L), L > W } 1 :- day(D), w(W).", [["w", 1]]),
    ("hidden_cond_pred", "{ sh(D,L) : pw(D,W,L) } 1 :- day(D), w(W).", [["w", 1], ["pw", 3]]),
    ("hidden_cond_pred_nobound", "{ sh(D,L) : pw(D,W,L) } 1 :- day(D), w(W), W > 0.", [["w", 1], ["pw", 3]]),
    ("neg_sibling", "#sum { -1,X : oth(X) : day(X) ; 1,L : sh(D,L) : ps(D,L) } <= 1 :- day(D).", []),
    ("zero_sibling", "#sum { 0,X : oth(X) : day(X) ; 1,L : sh(D,L) : ps(D,L) } <= 1 :- day(D).", []),
    ("classical_sibling", "{ -oth(D) ; sh(D,L) : ps(D,L) } 1 :- day(D).", []),
]

EXTRAS = [
    ("none", "", []),
    ("also_derived", "sh(D,0) :- day(D), holiday(D).", [["holiday", 1]]),
    ("is_input", "", [["sh", 2]]),
]

USES = [
    ("sum", "a(X) :- X = #sum {{ L,D : {SH} }}."),
    ("sumplus", "a(X) :- X = #sum+ {{ L,D : {SH} }}."),
    ("sum_extra", "a(X) :- X = #sum {{ L,D : {SH}, day(D) }}."),
    ("sum_anon", "a(X) :- X = #sum {{ L : {SHA} }}."),
    ("sum_twice", "a(X) :- X = #sum {{ L,D,L : {SH} }}."),
    ("sum_unify", "a(X) :- X = #sum {{ L,D : {SH} ; 1,D : day(D) }}."),
    ("sum_unify_rev", "a(X) :- X = #sum {{ 1,D : day(D) ; L,D : {SH} }}."),
    ("sum_unify_var", "a(X) :- X = #sum {{ C,E : ps(E,C), C > 1 ; L,D : {SH} }}."),
    ("sum_unify_var_first", "a(X) :- X = #sum {{ L,D : {SH} ; C,E : ps(E,C), C > 1 }}."),
    ("sum_three", "a(X) :- X = #sum {{ 1,x,D : day(D) ; L,D : {SH} ; 2,D : day(D) }}."),
    ("sum_global_weight", "a(L,X) :- ps(_,L), X = #sum {{ L,D : {SH} }}."),
    ("sum_global_group", "a(D,X) :- day(D), X = #sum {{ L,D : {SH} }}."),
    ("sum_nounify", "a(X) :- X = #sum {{ L,D : {SH} ; 1,x,D : day(D) }}."),
    ("sum_group", "a(D,X) :- day(D), X = #sum {{ L : {SH} }}."),
    ("sum_notuple", "a(X) :- X = #sum {{ L : {SH} }}."),
    ("sum_neg", "a(X) :- X = #sum {{ -L,D : {SH} }}."),
    ("sum_bound", "a :- 2 <= #sum {{ L,D : {SH} }}."),
    ("weak", ":~ {SH}. [L@1,D]"),
    ("minimize", "#minimize {{ L@1,D : {SH} }}."),
    ("maximize", "#maximize {{ L@1,D : {SH} }}."),
    ("weak_neg", ":~ {SH}. [-L@1,D]"),
    ("min_unify", "#minimize {{ L@1,D : {SH} }}. #minimize {{ 1@1,D : day(D) }}."),
    ("min_other_prio", "#minimize {{ L@1,D : {SH} }}. #minimize {{ 1@2,D : day(D) }}."),
    ("min_same_tuple", "#minimize {{ L@1,D : {SH} ; L@1,D : ps(D,L), L > 1 }}."),
    ("weak_same_tuple", ":~ {SH}. [L@1,D]\n:~ ps(D,L), L > 1. [L@1,D]"),
    ("weak_same_tuple_rev", ":~ ps(D,L), L > 1. [L@1,D]\n:~ {SH}. [L@1,D]"),
    ("weak_unify_othervars", ":~ {SH}. [L@1,D]\n:~ ps(E,M), M > 1. [M@1,E]"),
    ("sum_not", "a :- not 2 <= #sum {{ L,D : {SH} }}."),
    ("sum_notnot", "a :- not not 2 <= #sum {{ L,D : {SH} }}."),
    ("sum_scope_clash", "a(X) :- X = #sum {{ L,D : {SH} }}, 1 <= #count {{ L : ps(_,L) }}."),
    ("sum_scope_clash_cond", "a(X) :- X = #sum {{ L,D : {SH} }}, day(D) : ps(D,L)."),
    ("weak_arith_tuple", ":~ {SH}. [L@1,D/3]"),
    ("weak_fun_tuple", ":~ {SH}. [L@1,f(D)]"),
    ("weak_zero_tuple", ":~ {SH}. [L@1,D*0]"),
    ("sum_arith_tuple", "a(X) :- X = #sum {{ L,D/3 : {SH} }}."),
    ("sum_interval_group", "a(X) :- X = #sum {{ L : sh(1..2,L) }}."),
    ("sum_arith_group", "a(X) :- X = #sum {{ L : sh(D*1,L), day(D) }}."),
    ("min_arith_group", "#minimize {{ L@2 : sh(D*1,L), day(D) }}."),
    ("sum_arith_group_shift", "a(X) :- X = #sum {{ L : sh(D+1,L), day(D) }}."),
    ("sum_const_group", "a(X) :- X = #sum {{ L,1 : sh(1,L) }}."),
    ("weak_const_group", ":~ sh(1,L). [L@1,1]"),
    ("sum_fun_group", "a(X) :- X = #sum {{ L,D : sh(D,L), day(D) ; L,f(D) : sh(D,L), not day(D+1) }}."),
    ("sum_fun_tuple", "a(X) :- X = #sum {{ L,f(D,1) : {SH} }}."),
    ("weak_prio_is_weight", ":~ {SH}. [L@L,D]"),
    ("min_prio_is_weight", "#minimize {{ L@L,D : {SH} }}."),
    ("weak_prio_group", ":~ {SH}. [L@D,D]"),
    ("weak_prio_expr", ":~ {SH}. [L@L+1,D]"),
    ("weak_notuple", ":~ {SH}. [L@1]"),
    ("weak_extra", ":~ {SH}, day(D). [L@2,D]"),
    ("weak_anon", ":~ {SHA}. [L@1]"),
    ("weak_cond", ":~ {SH}, ps(D,M) : M > L. [L@1,D]"),
]


def universe(dname: str, ename: str, tier: str) -> list[str]:
    u = ["day(1)", "day(2)", "ps(1,1)", "ps(1,3)", "ps(2,3)", "ps(2,-2)"]
    if tier != "quick":
        u.append("ps(1,-2)")
    if dname == "extra_global":
        u += ["w(1)", "w(2)"]
    if dname == "hidden_global":
        u += ["w(0)", "w(2)"]
    if dname.startswith("hidden_cond_pred"):
        u = ["day(1)", "day(2)", "w(1)", "w(2)", "pw(1,1,1)", "pw(1,2,3)", "pw(2,1,3)", "pw(1,1,-2)", "ps(1,1)"]
    if dname == "cond_neg":
        u += ["bad(3)"]
    if dname == "two_elems":
        u += ["alt(1,2)"]
    if ename == "also_derived":
        u += ["holiday(1)"]
    if ename == "is_input":
        u += ["sh(1,2)", "sh(1,3)"]
    return u


def jobs(tier: str):
    oracle = orc("voc", costs=True, multiset=True)
    quick = tier == "quick"

    def gen():
        for dname, dtext, dinp in DEFS:
            local_first = dname == "local_first"
            for ename, etext, einp in EXTRAS:
                if quick and ename != "none" and dname not in ("ub1", "sum1", "eq1", "zero_sibling", "two_preds"):
                    continue
                for uname, utext in USES:
                    sh = "sh(L,D)" if local_first else "sh(D,L)"
                    sha = "sh(L,_)" if local_first else "sh(_,L)"
                    use = utext.format(SH=sh, SHA=sha)
                    prog = "\n".join(x for x in (dtext, etext if not local_first else etext.replace("sh(D,0)", "sh(0,D)"), use) if x)
                    inp = [["ps", 2], ["day", 1]] + dinp + einp
                    yield job("C13", prog, universe(dname, ename, tier), [config(["sum_chains"], inp, [], oracle)],
                              meta={"def": dname, "extra": ename, "use": uname,
                                    **({"owner_only": True} if dname.startswith("hidden_cond_pred") else {})})

    yield from dedupe(gen())
