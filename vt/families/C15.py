"""C15 inline: aggregate-defining helper rules x users x declarations, single(inline)"""

from __future__ import annotations

from vt.families.base import config, dedupe, job, orc

BASE = "{ pe(V,Y) } :- dpe(V,Y)."

HELPERS = [
    ("plain", "h(V,S) :- g(V), S = #{F} {{ Y : pe(V,Y) }}."),
    ("rev", "h(V,S) :- g(V), #{F} {{ Y : pe(V,Y) }} = S."),
    ("tuple2", "h(V,S) :- g(V), S = #{F} {{ Y,V : pe(V,Y) }}."),
    ("two_elems", "h(V,S) :- g(V), S = #{F} {{ Y : pe(V,Y) ; Y,x : dpe(V,Y), not pe(V,Y) }}."),
    ("extra_neg", "h(V,S) :- g(V), not blk(V), S = #{F} {{ Y : pe(V,Y) }}."),
    ("dup_head", "h(V,V,S) :- g(V), S = #{F} {{ Y : pe(V,Y) }}."),
    ("const_head", "h(V,1,S) :- g(V), S = #{F} {{ Y : pe(V,Y) }}."),
    ("two_defs", "h(V,S) :- g(V), S = #{F} {{ Y : pe(V,Y) }}. h(V,0) :- blk(V)."),
    ("nogrp", "h(S) :- S = #{F} {{ Y,V : pe(V,Y) }}."),
    ("bound", "h(V,S) :- g(V), S = #{F} {{ Y : pe(V,Y) }}, S > 1."),
    ("static", "h(V,S) :- g(V), S = #{F} {{ Y : dpe(V,Y) }}."),
    ("cond_global", "h(V,S) :- g(V), t(W), S = #{F} {{ Y : pe(V,Y), Y > W }}."),
]

USERS = [
    ("sum_w", "foo(X) :- X = #sum {{ S,V : {H} }}.", 2),
    ("sum_w_sib", "foo(X) :- X = #sum {{ S,V : {H} ; A : t(A) }}.", 2),
    ("sum_w_sib_unify", "foo(X) :- X = #sum {{ S,V : {H} ; A,B : dpe(B,A) }}.", 2),
    ("sum_w_sib3", "foo(X) :- X = #sum {{ S,V : {H} ; A,B,B : dpe(B,A) }}.", 2),
    ("sum_w_sib3c", "foo(X) :- X = #sum {{ S,V : {H} ; A,B,x : dpe(B,A) }}.", 2),
    ("sum_w_sib_const", "foo(X) :- X = #sum {{ S,V : {H} ; 2,1 : t(2) }}.", 2),
    ("sumplus_w", "foo(X) :- X = #sum+ {{ S,V : {H} }}.", 2),
    ("count_w", "foo(X) :- X = #count {{ S,V : {H} }}.", 2),
    ("min_w", "foo(X) :- X = #min {{ S,V : {H} }}.", 2),
    ("max_w", "foo(X) :- X = #max {{ S,V : {H} }}.", 2),
    ("sum_notw", "foo(X) :- X = #sum {{ 1,V : {H} }}.", 2),
    ("sum_w_notuple", "foo(X) :- X = #sum {{ S : {H} }}.", 2),
    ("sum_w_extra", "foo(X) :- X = #sum {{ S,V : {H}, not blk(V) }}.", 2),
    ("sum_bound", "foo :- 3 <= #sum {{ S,V : {H} }}.", 2),
    ("arith", "foo(V) :- {H}, T = #sum {{ A : t(A) }}, S + T > 4.", 2),
    ("arith_eq", "foo(V,Z) :- {H}, T = #sum {{ A : t(A) }}, Z = S + T.", 2),
    ("under_not", "foo(V) :- g(V), not {H2}.", 2),
    ("weak", ":~ {H}. [S@1,V]", 2),
    ("minimize", "#minimize {{ S@1,V : {H} }}.", 2),
    ("maximize", "#maximize {{ S@1,V : {H} }}.", 2),
    ("weak_notuple", ":~ {H}. [S@1]", 2),
    ("weak_varprio", ":~ {H}. [S@1,V]\n:~ dpe(B,A), t(L). [A@L-1,B]", 2),
    ("weak_exprprio", ":~ {H}. [S@1,V]\n:~ dpe(B,A). [A@0+1,B]", 2),
    ("weak_sameprio", ":~ {H}. [S@1,V]\n:~ dpe(B,A). [A@1,B]", 2),
    ("sum_not", "foo :- not 3 <= #sum {{ S,V : {H} }}.", 2),
    ("sum_notnot", "foo :- not not 3 <= #sum {{ S,V : {H} }}.", 2),
    ("sum_scope_clash", "foo(X) :- X = #sum {{ S,V : {H} }}, 1 <= #count {{ Y : dpe(_,Y) }}.", 2),
    ("sum_scope_clash_v", "foo(X) :- X = #sum {{ S,V : {H} ; Y,V,a : dpe(V,Y) }}.", 2),
    ("sum_arith_tuple", "foo(X) :- X = #sum {{ S,V/3 : {H} }}.", 2),
    ("sum_fun_tuple", "foo(X) :- X = #sum {{ S,f(V) : {H} }}.", 2),
    ("weak_arith_tuple", ":~ {H}. [S@1,V/3]", 2),
    ("weak_zero_tuple", ":~ {H}. [S@1,V*0]", 2),
    ("twice_same_stmt", "foo(V) :- {H}, S = #max {{ T,W : h(W,T) }}.", 2),
    ("twice_same_agg", "foo(X) :- X = #sum {{ S,V : {H} ; S,V,b : {H}, t(S) }}.", 2),
    ("twice_body", "foo(V,W) :- {H}, h(W,S), V < W.", 2),
    ("twice_weak", ":~ {H}, h(W,S), V < W. [S@1,V,W]", 2),
    ("anon", "foo :- {HA}, S > 1.", 2),
    ("two_uses", "foo(X) :- X = #sum {{ S,V : {H} }}. bar(V) :- {H}, S > 2.", 2),
    ("plain_body", "foo(V,S) :- {H}.", 2),
    ("interval_arg", "foo :- h(1..2,S), S > 2.", 2),
    ("interval_arg_agg", "foo(X) :- X = #sum {{ S,V : h(V,S), V = 1..2 }}.", 2),
    ("sum_w_outer_clash", "foo(Y,X) :- t(Y), X = #sum {{ S,V : {H} }}.", 2),
    ("max_w_outer_clash", "foo(Y,X) :- t(Y), X = #max {{ S,V : {H} }}.", 2),
    ("sum_w_outer_clash_neg", "foo(Y) :- t(Y), not 3 <= #sum {{ S,V : {H} }}.", 2),
    ("two_uses_weak_cond", "foo(X) :- X = #sum {{ S,V : {H} }}.\n:~ g(V), S < 3 : {H}. [1@1,V]", 2),
    ("two_uses_rule_cond", "foo(X) :- X = #sum {{ S,V : {H} }}.\nbar(V) :- g(V), S < 3 : {H}.", 2),
    ("two_uses_rule_condhead", "foo(X) :- X = #sum {{ S,V : {H} }}.\nbar :- {H} : g(V), t(S).", 2),
    ("two_uses_constraint_cond", "foo(X) :- X = #sum {{ S,V : {H} }}.\n:- g(V), S > 2 : {H}.", 2),
    ("weak_cond_only", ":~ g(V), S < 3 : {H}. [1@1,V]", 2),
    ("two_uses_choice_cond", "foo(X) :- X = #sum {{ S,V : {H} }}.\n{{ bar(V) : {H}, S > 2 }}.", 2),
    ("sum1_w", "foo(X) :- X = #sum {{ S : {H1} }}.", 1),
    ("weak1", ":~ {H1}. [S@1]", 1),
]

DIRECT = [
    ("direct_weak", ":~ S = #{F} { Y,V : pe(V,Y) }. [S@1]"),
    ("direct_weak_tuple", ":~ g(V), S = #{F} { Y : pe(V,Y) }. [S@1,V]"),
    ("direct_weak_unify", ":~ S = #{F} { Y,V : pe(V,Y) }. [S@1]\n:~ t(A). [A@1]"),
    ("direct_weak_unify2", ":~ S = #{F} { Y,V : pe(V,Y) }. [S@1]\n:~ t(A). [A@1,B] : dpe(B,_)."),
    ("direct_weak_prio", ":~ S = #{F} { Y,V : pe(V,Y) }. [S@1]\n:~ t(A). [A@2]"),
    ("direct_weak_two", ":~ g(V), S = #{F} { Y : pe(V,Y) ; Y : dpe(V,Y), not pe(V,Y) }. [S@1,V]"),
    ("direct_weak_varprio", ":~ g(V), S = #{F} { Y : pe(V,Y) }. [S@1,V]\n:~ dpe(B,A), t(L). [A@L-1,B]"),
    ("direct_weak_exprprio", ":~ g(V), S = #{F} { Y : pe(V,Y) }. [S@1,V]\n:~ dpe(B,A). [A@0+1,B]"),
    ("direct_weak_sameprio", ":~ g(V), S = #{F} { Y : pe(V,Y) }. [S@1,V]\n:~ dpe(B,A). [A@1,B]"),
    ("direct_neg", ":~ S = #{F} { Y,V : pe(V,Y) }. [-S@1]"),
    ("direct_min", "#minimize { S@1 : S = #{F} { Y,V : pe(V,Y) } }."),
]

FUNS = ["sum", "sum+", "count", "min", "max"]
IN0 = [["dpe", 2], ["g", 1], ["t", 1], ["blk", 1]]


def jobs(tier: str):
    quick = tier == "quick"
    universe = ["g(1)", "g(2)", "dpe(1,2)", "dpe(1,3)", "dpe(2,2)", "t(2)", "t(3)", "blk(2)"]
    if not quick:
        universe.append("dpe(2,-1)")

    def cfgs(hsig, user=""):
        import re  # pylint: disable=import-outside-toplevel

        # the heads of the user statements are the outputs (foo and bar occur with several arities)
        heads = []
        for stm in re.split(r"\.(?:\s+|$)", user):
            m = re.match(r"\s*\{?\s*(foo|bar)(\(([^)]*)\))?\s*[:}.]?", stm)
            if m and (":-" in stm or m.group(0).strip()) and not stm.strip().startswith((":~", ":-", "#")):
                sig = [m.group(1), 0 if not m.group(2) else m.group(3).count(",") + 1]
                if sig not in heads:
                    heads.append(sig)
        heads = heads or [["foo", 1]]
        out = []
        for decl, (inp, outp) in (("neither", (IN0, heads)), ("out_empty", (IN0, [])),
                                  ("h_out", (IN0, heads + [hsig])), ("h_in", (IN0 + [hsig], heads))):
            if quick and decl in ("h_in",):
                continue
            out.append(config(["inline"], inp, outp, orc("inout", costs=True, multiset=False)))
        return out

    def gen():
        for hname, htext in HELPERS:
            harity = 3 if hname in ("dup_head", "const_head") else (1 if hname == "nogrp" else 2)
            for fun in FUNS:
                if quick and fun in ("sum+",) and hname not in ("plain", "two_elems"):
                    continue
                helper = htext.format(F=fun)
                for uname, utext, need in USERS:
                    if (need == 1) != (harity == 1):
                        continue
                    if harity == 3:
                        hat = "h(V,V,S)" if hname == "dup_head" else "h(V,1,S)"
                        h2 = "h(V,V,2)" if hname == "dup_head" else "h(V,1,2)"
                        ha = "h(_,_,S)"
                    else:
                        hat, h2, ha = "h(V,S)", "h(V,2)", "h(_,S)"
                    user = utext.format(H=hat, H2=h2, HA=ha, H1="h(S)")
                    prog = "\n".join([BASE, helper, user])
                    yield job("C15", prog, universe, cfgs(["h", harity], user),
                              meta={"helper": hname, "fun": fun, "user": uname})
        for dname, dtext in DIRECT:
            for fun in FUNS:
                prog = BASE + "\n" + dtext.replace("{F}", fun)
                yield job("C15/direct", prog, universe,
                          [config(["inline"], IN0, [["pe", 2]], orc("inout", costs=True, multiset=False))],
                          meta={"direct": dname, "fun": fun})

    yield from dedupe(gen())
