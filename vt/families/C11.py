"""C11 symmetry: k copies of one predicate with pairwise comparisons, single(symmetry)"""

from __future__ import annotations

from itertools import product

from vt.families.base import config, dedupe, job, orc

OPS = {
    "none": None,
    "neq": "{a} != {b}",
    "lt": "{a} < {b}",
    "gt": "{a} > {b}",
    "noteq": "not {a} = {b}",
    "le": "{a} <= {b}",
    "ge": "{a} >= {b}",
    "notgt": "not {a} > {b}",
    "notge": "not {a} >= {b}",
    "notlt": "not {a} < {b}",
    "notle": "not {a} <= {b}",
    "notneq": "not {a} != {b}",
}


def cmp(op: str, a: str, b: str):
    t = OPS[op]
    return None if t is None else t.format(a=a, b=b)


def groups(tier: str):
    """yield (name, literals, comparison literals, compared vars, group var)"""
    ops1 = ["neq", "lt", "gt", "noteq", "none", "le", "ge", "notgt", "notge", "notlt", "notle", "notneq"]
    # p/2, two copies, shared group argument
    for op in ops1:
        yield (f"p2k2_{op}", ["p(G,A)", "p(G,B)"], [cmp(op, "A", "B")], ["A", "B"], "G")
    # p/2, two copies, both positions distinct
    for op0, op1 in product(["neq", "none", "lt"], ["neq", "lt"]):
        yield (f"p2k2_d_{op0}_{op1}", ["p(G,A)", "p(H,B)"], [cmp(op0, "G", "H"), cmp(op1, "A", "B")], ["A", "B", "G", "H"], None)
    # p/2, two copies, compared position first
    yield ("p2k2_first", ["p(A,G)", "p(B,G)"], ["A != B"], ["A", "B"], "G")
    # p/3, two copies, ties in third position
    for op2 in ["same", "neq", "none"]:
        if op2 == "same":
            yield ("p3k2_same", ["p3(G,A,T)", "p3(G,B,T)"], ["A != B"], ["A", "B"], "G")
        else:
            yield (f"p3k2_{op2}", ["p3(G,A,T)", "p3(G,B,U)"], ["A != B", cmp(op2, "T", "U")], ["A", "B", "T", "U"], "G")
    # three copies
    yield ("p2k3_neq", ["p(G,A)", "p(G,B)", "p(G,C)"], ["A != B", "B != C", "A != C"], ["A", "B", "C"], "G")
    yield ("p2k3_lt", ["p(G,A)", "p(G,B)", "p(G,C)"], ["A < B", "B < C", "A < C"], ["A", "B", "C"], "G")
    yield ("p2k3_partial", ["p(G,A)", "p(G,B)", "p(G,C)"], ["A != B", "B != C"], ["A", "B", "C"], "G")
    yield ("p2k3_chain", ["p(G,A)", "p(G,B)", "p(G,C)"], ["A < B", "B < C"], ["A", "B", "C"], "G")
    yield ("p2k3_mixed", ["p(G,A)", "p(G,B)", "p(G,C)"], ["A != B", "B < C", "A != C"], ["A", "B", "C"], "G")
    # two groups sharing a variable
    yield ("two_groups", ["p(G,A)", "p(G,B)", "p3(G,C,T)", "p3(G,D,T)"], ["A != B", "C != D"], ["A", "B", "C", "D"], "G")
    yield ("two_groups_shared", ["p(G,A)", "p(G,B)", "p3(G,A,T)", "p3(G,C,T)"], ["A != B", "A != C"], ["A", "B", "C"], "G")
    # a group of three and a group of two over some of the same variables
    yield ("k3_k2", ["w(A)", "w(B)", "w(C)", "q(A)", "q(B)"], ["A != B", "B != C", "A != C"], ["A", "B", "C"], None)
    yield ("k3_k2_last", ["w(A)", "w(B)", "w(C)", "q(B)", "q(C)"], ["A != B", "B != C", "A != C"], ["A", "B", "C"], None)
    yield ("k3_k2_grp", ["p(G,A)", "p(G,B)", "p(G,C)", "p3(G,A,T)", "p3(G,B,T)"], ["A != B", "B != C", "A != C"], ["A", "B", "C"], "G")
    yield ("k2_k2_same", ["w(A)", "w(B)", "q(A)", "q(B)"], ["A != B"], ["A", "B"], None)
    yield ("k3_k3_same", ["w(A)", "w(B)", "w(C)", "q(A)", "q(B)", "q(C)"], ["A != B", "B != C", "A != C"], ["A", "B", "C"], None)
    yield ("two_groups_eqpos", ["w(X)", "w(Y)", "p(A,X)", "p(B,X)"], ["X != Y", "A != B"], ["X", "Y", "A", "B"], None)
    # a compared variable at two different argument positions: exchanging the atoms is no symmetry
    yield ("pos_chain", ["p(A,B)", "p(B,C)"], ["A != B", "B != C"], ["A", "B", "C"], None)
    yield ("pos_chain_lt", ["p(A,B)", "p(B,C)"], ["A < B", "B != C"], ["A", "B", "C"], None)
    yield ("pos_cycle3", ["p(A,B)", "p(B,C)", "p(C,A)"], ["A != B", "B != C", "A != C"], ["A", "B", "C"], None)
    yield ("pos_back", ["p(A,B)", "p(C,A)"], ["A != C", "B != A"], ["A", "B", "C"], None)
    yield ("pos_swap", ["p(A,B)", "p(B,A)"], ["A != B"], ["A", "B"], None)
    # compound terms at the equal positions
    yield ("arith_equal", ["p(G+1,A)", "p(G+1,B)", "d(G)"], ["A != B"], ["A", "B"], "G")
    yield ("const_equal", ["p(1,A)", "p(1,B)"], ["A != B"], ["A", "B"], None)
    # a positive and a negated atom of the same predicate
    yield ("signs_mixed", ["p(B,A)", "not p(A,B)"], ["A != B"], ["A", "B"], None)
    yield ("signs_neg", ["w(A)", "w(B)", "not p(B,A)", "not p(A,B)"], ["A != B"], ["A", "B"], None)
    yield ("signs_dneg", ["p(B,A)", "not not p(A,B)"], ["A != B"], ["A", "B"], None)
    # zero-ary group (no shared argument)
    yield ("p1k2", ["w(A)", "w(B)"], ["A != B"], ["A", "B"], None)
    yield ("p1k3", ["w(A)", "w(B)", "w(C)"], ["A != B", "B != C", "A != C"], ["A", "B", "C"], None)


EXTRAS = [
    ("none", None),
    ("q_A", "q(A)"),
    ("notq_A", "not q(A)"),
    ("q_G", "q(G)"),
    ("cond_A", "q(Z) : w(Z), Z < A"),
    ("agg_A", "1 <= #sum {{ 1,Z : w(Z), Z < A }}"),
    ("cmp_A", "A > 1"),
    ("agg_pos_A", "1 <= #sum {{ 1,Z : p(Z,A) }}"),
    ("cond_pos_A", "q(Z) : p(Z,A)"),
    ("count_pos_A", "1 <= #count {{ Z : p(Z,A) }}"),
    ("sum_AB", "A + B > 3"),
    ("eq_AZ", "Z = A, q(Z)"),
]

CONTEXTS = [
    ("constraint", ":- {B}."),
    ("rule0", "h :- {B}."),
    ("ruleG", "h({G}) :- {B}."),
    ("ruleA", "h(A) :- {B}."),
    ("choiceG", "{{ h({G}) }} :- {B}."),
    ("agg", "h :- 1 <= #sum {{ 1,{G} : {B} }}."),
    ("aggA", "h :- 3 <= #sum {{ A,{G} : {B} }}."),
    ("aggG", "h({G}) :- d({G}), 1 <= #sum {{ 1 : {B} }}."),
    ("nagg", "h :- not 1 <= #sum {{ 1,{G} : {B} }}."),
    ("nnagg", "h :- not not 1 <= #sum {{ 1,{G} : {B} }}."),
    ("ncond", "h :- d(1), not q(0) : {B}."),
    ("weak", ":~ {B}. [1@1,{G}]"),
    ("weakA", ":~ {B}. [A@1,{G}]"),
    ("weakprio", ":~ {B}. [1@A,{G}]"),
    ("weakprioB", ":~ {B}. [1@B]"),
    # a compared variable that occurs only in a guard / an element of a head aggregate is global in the head
    ("hagg_rguard", "0 {{ h(Z) : q(Z) }} 3-A :- {B}."),
    ("hagg_lguard", "A-1 {{ h(Z) : q(Z) }} :- {B}."),
    ("hagg_count_rguard", "0 #count {{ Z : h(Z) : q(Z) }} A :- {B}."),
    ("hagg_sum_rguard", "#sum {{ Z : h(Z) : q(Z) }} <= A :- {B}."),
    ("choiceA", "{{ h(A) }} :- {B}."),
    ("disjA", "h(A) ; g :- {B}."),
]

PDEFS = [
    ("input", "", [["p", 2], ["p3", 3], ["w", 1], ["q", 1], ["d", 1]]),
    ("choice", "{ p(X,Y) } :- dp(X,Y). { p3(X,Y,Z) } :- dp3(X,Y,Z). { w(X) } :- q(X).",
     [["dp", 2], ["dp3", 3], ["q", 1], ["d", 1]]),
    ("derived", "p(X,Y) :- dp(X,Y), not q(Y). p3(X,Y,Z) :- dp3(X,Y,Z). w(X) :- q(X). w(X+1) :- q(X).",
     [["dp", 2], ["dp3", 3], ["q", 1], ["d", 1]]),
]


def universe(kind: str, uses: set, tier: str) -> list[str]:
    pre = "" if kind == "input" else "d"
    u = []
    if "p" in uses:
        u += [f"{pre}p(1,1)", f"{pre}p(1,2)", f"{pre}p(1,3)", f"{pre}p(2,2)", f"{pre}p(2,1)"]
    if "p3" in uses:
        u += [f"{pre}p3(1,1,1)", f"{pre}p3(1,2,1)", f"{pre}p3(1,2,2)", f"{pre}p3(1,3,1)"]
    if "w" in uses and kind == "input":
        u += ["w(1)", "w(2)", "w(3)"]
    if "q" in uses or ("w" in uses and kind != "input"):
        u += ["q(1)", "q(2)"] + (["q(3)"] if "w" in uses and kind != "input" else [])
    if "d" in uses:
        u += ["d(1)"]
    return u


def jobs(tier: str):
    oracle = orc("voc", costs=True, multiset=True)
    quick = tier == "quick"

    def gen():
        for gname, lits, cmps, cvars, gvar in groups(tier):
            cmps = [c for c in cmps if c]
            for ename, extra in EXTRAS:
                if extra and "B" in extra and "B" not in cvars:
                    continue
                if extra and "{G}" not in extra and "G" in extra and gvar is None:
                    continue
                for cname, ctx in CONTEXTS:
                    if gvar is None and "{G}" in ctx and cname in ("ruleG", "choiceG", "aggG"):
                        continue
                    # inside an aggregate element / the condition of a conditional literal `;` would start a new element
                    sep = ", " if cname in ("agg", "aggA", "aggG", "nagg", "nnagg", "ncond") else "; "
                    body = sep.join(lits + cmps + ([extra.replace("{{", "{").replace("}}", "}")] if extra else []))
                    g = gvar or "0"
                    stm = ctx.format(B=body, G=g)
                    for pname, pdef, inp in PDEFS:
                        if quick and pname == "derived" and ename not in ("none", "q_A"):
                            continue
                        uses = {n for n in ("p3", "w", "q", "d") if n + "(" in stm}
                        if "p(" in stm.replace("dp(", "").replace("p3(", ""):
                            uses.add("p")
                        # keep only the definitions that are used
                        defs = " ".join(r for r in pdef.split(". ") if any(
                            r.strip().lstrip("{ ").startswith(n + "(") for n in uses))
                        defs = defs if not defs or defs.endswith(".") else defs + "."
                        prog = (defs + "\n" if defs else "") + stm
                        inp_used = [i for i in inp if any(i[0] == x or i[0] == "d" + x for x in uses) or i[0] in uses]
                        if ("w" in uses and pname != "input") and ["q", 1] not in inp_used:
                            inp_used.append(["q", 1])
                        u = universe(pname, uses, tier)
                        yield job("C11", prog, u, [config(["symmetry"], inp_used, [], oracle)],
                                  meta={"group": gname, "extra": ename, "ctx": cname, "p": pname,
                                        **({"owner_only": True} if cname.startswith(("hagg_", "choiceA", "disjA")) else {})})

    def eqagg():
        # symmetry first substitutes variable equalities, also inside aggregate elements: equalities between local
        # variables, between a local and a global variable, and between two global variables
        stms = [
            ("loc_glob", "h(Y) :- q(Y), 1 <= #count {{ A : w(A), A = Y }}."),
            ("glob_loc", "h(Y) :- q(Y), 1 <= #count {{ A : w(A), Y = A }}."),
            ("glob_glob", "h(Y,Z) :- q(Y), q(Z), 1 <= #count {{ A : w(A), Z = Y }}."),
            ("loc_loc_glob", "h(Y) :- q(Y), 1 <= #count {{ A,B : w(A), w(B), A = B, B = Y }}."),
            ("loc_loc", "h :- 2 <= #count {{ A,B : w(A), w(B), A = B }}."),
            ("top_and_elem", "h(Y,Z) :- q(Y), q(Z), Y = Z, 1 <= #count {{ A : w(A), A = Z }}."),
            ("elem_two", "h(Y) :- q(Y), 2 <= #sum {{ A : w(A), A = Y ; B,b : w(B), B != Y }}."),
            ("weak", ":~ q(Y), 1 <= #count {{ A : w(A), A = Y }}. [1@1,Y]"),
            ("noteq", "h(Y) :- q(Y), 1 <= #count {{ A : w(A), not A != Y }}."),
        ]
        for name, stm in stms:
            for pname, pdef in (("input", ""), ("choice", "{ w(X) } :- dw(X).")):
                inp = [["q", 1], ["w", 1]] if pname == "input" else [["q", 1], ["dw", 1]]
                pre = "" if pname == "input" else "d"
                u = ["q(1)", "q(2)", f"{pre}w(1)", f"{pre}w(2)", f"{pre}w(3)"]
                yield job("C11/eqagg", (pdef + "\n" if pdef else "") + stm.replace("{{", "{").replace("}}", "}"), u,
                          [config(["symmetry"], inp, [], oracle)], meta={"stm": name, "p": pname})

    yield from dedupe(gen())
    yield from dedupe(eqagg())
