"""C08 cleanup: DEF x USE context x subsets of a literal menu, single(cleanup)"""

from __future__ import annotations

from vt.families.base import config, dedupe, facts, job, orc, subsets

DEFS = [
    ("plain", "b(X,Y) :- d(X), e(Y).", False),
    ("two_same", "b(X,Y) :- d(X), e(Y). b(X,Y) :- d(X), e(Y), f(X).", False),
    ("two_diff", "b(X,Y) :- d(X), e(Y). b(X,Y) :- f(X), e(Y).", False),
    ("chain", "c(X) :- d(X). b(X,Y) :- c(X), e(Y).", True),
    ("perm", "b(Y,X) :- d(X), e(Y).", False),
    ("rep", "b(X,X) :- d(X).", False),
    ("const", "b(X,1) :- d(X).", False),
    ("neg", "b(X,Y) :- d(X), e(Y), not f(X).", False),
    ("dneg", "b(X,Y) :- d(X), e(Y), not not f(X).", False),
    ("choice", "{ b(X,Y) } :- d(X), e(Y).", False),
    ("choice_cond", "{ b(X,Y) : e(Y) } :- d(X).", False),
    ("choice_cond_neg", "{ b(X,Y) : e(Y), not f(X) } :- d(X).", False),
    ("disj", "b(X,Y) ; c(X) :- d(X), e(Y).", True),
    ("disj_cond", "b(X,Y) : e(Y) ; c(X) :- d(X).", True),
    ("bounds", "1 { b(X,Y) : e(Y) } 1 :- d(X).", False),
    ("sumhead", "1 #sum { 1,Y : b(X,Y) : e(Y) } :- d(X).", False),
    ("choice_chain", "{ c(X) } :- d(X). b(X,Y) :- c(X), e(Y).", True),
    ("dneg_loop", "c(X) :- g(X). c(X) :- f(X). k(X) :- c(X). b(X,Y) :- d(X), e(Y), not not k(X).", True),
    ("neg_loop", "c(X) :- g(X). c(X) :- f(X). k(X) :- not c(X), d(X). b(X,Y) :- d(X), e(Y), not k(X).", True),
    ("pos_loop", "c(X) :- g(X). c(X) :- f(X). b(X,Y) :- d(X), e(Y), c(X).", True),
    ("fact_and_rule", "b(1,1). b(X,Y) :- d(X), e(Y).", False),
    ("rule_and_fact", "b(X,Y) :- d(X), e(Y). b(1,1).", False),
    ("two_diff_rev", "b(X,Y) :- f(X), e(Y). b(X,Y) :- d(X), e(Y).", False),
    ("three_rules", "b(X,Y) :- d(X), e(Y), f(X). b(X,Y) :- f(Y), f(X). b(X,Y) :- d(X), e(Y).", False),
    ("empty_then_rule", "b(X,Y) :- f(X), f(Y). b(X,Y) :- d(X), e(Y). b(X,Y) :- d(X), e(Y), f(X).", False),
]
DEFAULT_C = "c(X) :- d(X), f(X)."

MENU = [
    "b(X,Y)",
    "b(Y,X)",
    "b(X,_)",
    "b(X,X)",
    "d(X)",
    "d(Y)",
    "e(Y)",
    "e(X)",
    "not d(X)",
    "not not d(X)",
    "not e(Y)",
    "f(X)",
    "not f(X)",
    "not b(X,Y)",
    "c(X)",
    "#true",
    "#false",
    "#false : e(Y)",
    "#true : f(X)",
]

USES = [
    ("body", "a :- {L}."),
    ("constraint", ":- {L}."),
    ("condlit", "a :- d(X), c(X) : {L}."),
    ("aggregate", "a :- 1 <= #sum {{ 1 : {L} }}."),
    ("weak", ":~ {L}. [1@1]"),
    ("loop", "g(X) :- {L}."),
    ("via_top", "top(X,Y) :- b(X,Y). a :- top(X,Y), {L}."),
    ("via_top_cond", "top(X,Y) :- b(X,Y). a :- d(Z), top(Z,Y) : {L}."),
]

U0 = facts("d", [1, 2]) + facts("e", [1, 2]) + facts("f", [1, 2])
UB = facts("d", [1, 2]) + facts("e", [1, 2]) + ["f(1)", "b(1,2)", "b(2,1)"]
IN0 = [["d", 1], ["e", 1], ["f", 1]]


def jobs(tier: str):
    kmax = 2 if tier == "quick" else 3
    oracle = orc("voc", costs=True, multiset=True)

    def gen():
        for dname, dtext, defines_c in DEFS:
            ctext = "" if defines_c else " " + DEFAULT_C
            for uname, utmpl in USES:
                for lits in subsets(MENU, 2, kmax):
                    body = ", ".join(lits)
                    prog = f"{dtext}{ctext}\n{utmpl.format(L=body)}"
                    meta = {"def": dname, "use": uname, "lits": list(lits)}
                    yield job("C08", prog, U0, [config(["cleanup"], IN0, [], oracle)], meta=meta)
                    if len(lits) == 2 or uname.startswith("via_top"):
                        yield job("C08/inb", prog, UB, [config(["cleanup"], IN0 + [["b", 2]], [], oracle)], meta=meta)

    yield from dedupe(gen())
