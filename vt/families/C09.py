"""C09 unused: PRODUCER x MID (copy rules) x CONSUMER x OUT, single(unused)"""

from __future__ import annotations

from vt.families.base import config, dedupe, job, orc

# b/2 is the producer
PRODUCERS = [
    ("input", "", [["b", 2]]),
    ("choice", "{ b(X,Y) } :- db(X,Y).", [["db", 2]]),
    ("derived", "b(X,Y) :- db(X,Y), not blk(X).", [["db", 2], ["blk", 1]]),
    ("headagg_count", "1 #count { Y : b(X,Y) : db(X,Y) } 2 :- db(X,_).", [["db", 2]]),
    ("headagg_sum", "#sum { Y,X : b(X,Y) : db(X,Y) } 3 :- db(X,_).", [["db", 2]]),
    ("oldstyle", "1 { b(X,Y) : db(X,Y) } 2 :- db(X,_).", [["db", 2]]),
    ("disjunction", "b(X,Y) ; nb(X,Y) :- db(X,Y).", [["db", 2]]),
    ("headagg_eq", "2 = #count { Y : b(X,Y) : db(_,Y) } :- db(X,_).", [["db", 2]]),
    ("recursive", "b(X,Y) :- db(X,Y). b(X,Z) :- b(X,Y), db(Y,Z).", [["db", 2]]),
]

MIDS = [
    ("none", ""),
    ("copy_swap", "m(X,Y) :- b(Y,X)."),
    ("copy_same", "m(X,Y) :- b(X,Y)."),
    ("copy_rep", "m(X,X) :- b(X,_)."),
    ("copy_const", "m(X,1) :- b(X,_)."),
    ("copy_chain", "n(X,Y) :- b(Y,X). m(X,Y) :- n(Y,X)."),
    ("copy_proj", "m(X) :- b(X,_)."),
    ("copy_proj2", "m(Y) :- b(_,Y)."),
    ("two_defs", "m(X,Y) :- b(X,Y). m(X,Y) :- b(Y,X)."),
    ("once_var", "m(X,Y) :- b(X,Y), db(X,Z)."),
    ("arith_head", "m(X,Y+1) :- b(X,Y)."),
    ("neg_body", "m(X,Y) :- db(X,Y), not b(X,Y)."),
    ("choice_copy", "{ m(X,Y) } :- b(X,Y)."),
    ("copy_extra", "m(X,Y) :- b(X,Y), X != Y."),
    ("copy_three", "m(X,Y,Z) :- b(X,Y), b(Y,Z)."),
    ("copy_fun", "m(f(X),Y) :- b(X,Y)."),
    ("copy_dup_arg", "m(X,Y,X) :- b(X,Y)."),
    # m and -m are linked by the implicit constraint `:- m(X,Y), -m(X,Y).`
    ("copy_classneg", "m(X,Y) :- b(X,Y). -m(X,Y) :- db(Y,X)."),
    ("classneg_two_defs", "m(X,Y) :- b(X,Y), db(X,_). -m(Y,X) :- b(X,Y), db(X,X)."),
]

# consumers of m (or of b when MID is none): {M} is the atom with both positions, {MA} with the 2nd position anonymous
CONSUMERS = [
    ("head_only", "c(X) :- {MA}."),
    ("head_both", "c(X,Y) :- {M}."),
    ("anon_all", "c :- {MAA}."),
    ("choice_lit", "{{ c(X) : {MA} }}."),
    ("choice_cond", "{{ c(X) }} :- {MA}."),
    ("disj", "c(X) ; d(X) :- {MA}."),
    ("headagg_cond", "1 #sum {{ 1,X : c(X) : {MA} }}."),
    ("bodyagg_cond", "c(S) :- S = #sum {{ 1,X : {MA} }}."),
    ("bodyagg_tuple", "c(S) :- S = #sum {{ Y,X : {M} }}."),
    ("bodyagg_count", "c(S) :- S = #count {{ X : {M} }}."),
    ("constraint", ":- {M}, X > Y."),
    ("constraint_anon", ":- {MA}, X > 1."),
    ("weak", ":~ {M}. [Y@1,X]"),
    ("weak_anon", ":~ {MA}. [1@1,X]"),
    ("weak_once", ":~ {M}. [1@1,X]"),
    ("minimize", "#minimize {{ X@1,Y : {M} }}."),
    ("show_sig", "c(X) :- {MA}. #show m/2. #show c/1."),
    ("show_term", "#show f(X) : {MA}."),
    ("show_term_both", "#show f(X,Y) : {M}."),
    ("external", "#external e(X) : {MA}. c(X) :- e(X)."),
    ("project_sig", "c(X) :- {MA}. #project m/2."),
    ("project_atom", "c(X) :- {MA}. #project c(X) : {M}."),
    ("heuristic", "{{ c(X) }} :- {MA}. #heuristic c(X) : {M}. [Y@1,true]"),
    ("neg", "c(X) :- db(X,_), not {MA}."),
    ("cond_lit", "c :- db(X,_) : {MA}."),
    ("cond_lit_head", "c :- db(X,Y), {M2} : db(X,Z)."),
    ("two_uses", "c(X) :- {MA}. e(Y) :- {MB}."),
    ("unused", "c(X) :- db(X,_)."),
    ("neg_head", "c(X) :- db(X,_). not {MA} :- db(X,X)."),
    ("neg_head_only", "not {M} :- db(X,Y), X < Y. c(X) :- db(X,_)."),
    ("dneg_head", "c(X) :- db(X,_). not not {MA} :- db(X,X)."),
    ("dneg_head_only", "not not {M} :- db(X,Y), X < Y. c(X) :- db(X,_)."),
    ("dneg_head_anon", "c(X) :- db(X,_). not not {MAA} :- db(X,X)."),
    ("edge", "c(X) :- db(X,_). #edge (X,Y) : {M}."),
    ("edge_anon", "c(X) :- db(X,_). #edge (X,X+1) : {MA}."),
    ("classneg_body", "c(X) :- db(X,_). :- db(X,_), -{MA}."),
    ("classneg_head", "c(X) :- db(X,_). -{M} :- db(Y,X), X < Y."),
    ("clash_names", "c(X0,Y0) :- {M0}, db(X0,_), db(Y0,_)."),
]

OUTS = [("empty", []), ("c", [["c", 1], ["c", 2], ["c", 0]]), ("m", [["m", 2], ["m", 1], ["m", 3]]), ("auto", "auto")]


def atoms(mid: str):
    """how the consumer addresses the mid predicate"""
    if mid == "none":
        return "b(X,Y)", "b(X,_)", "b(_,Y)", "b(_,_)", "b(X,Z)"
    if mid in ("copy_proj", "copy_proj2"):
        return None
    if mid in ("copy_three", "copy_dup_arg"):
        return "m(X,Y,_)", "m(X,_,_)", "m(_,Y,_)", "m(_,_,_)", "m(X,Z,_)"
    return "m(X,Y)", "m(X,_)", "m(_,Y)", "m(_,_)", "m(X,Z)"


def jobs(tier: str):
    quick = tier == "quick"

    def gen():
        for pname, ptext, pin in PRODUCERS:
            for mname, mtext in MIDS:
                for cname, ctext in CONSUMERS:
                    if quick and pname not in ("input", "choice") and cname not in (
                            "head_only", "anon_all", "constraint", "weak", "show_term", "bodyagg_tuple", "classneg_body", "classneg_head"):
                        continue
                    if mname in ("copy_proj", "copy_proj2"):
                        if "{M}" in ctext or "{M2}" in ctext or "{MB}" in ctext or "{M0}" in ctext:
                            continue
                        cons = ctext.format(MA="m(X)", MAA="m(_)", M="", MB="", M2="", M0="")
                    else:
                        m, ma, mb, maa, m2 = atoms(mname)
                        # the names X0/Y0 are the ones the copy-rule removal generates itself
                        m0 = m.replace("X", "Y0").replace("Y,", "X0,").replace("Y)", "X0)")
                        cons = ctext.format(M=m, MA=ma, MB=mb, MAA=maa, M2=m2, M0=m0)
                    prog = "\n".join(x for x in (ptext, mtext, cons) if x)
                    universe = ["db(1,2)", "db(2,1)", "db(2,2)", "db(1,3)"]
                    if pname == "input":
                        universe = ["b(1,2)", "b(2,1)", "b(2,2)", "b(1,3)", "db(1,2)", "db(2,2)"]
                    if pname == "derived":
                        universe.append("blk(2)")
                    inp = list(pin) + ([["db", 2]] if pname == "input" else [])
                    cfg = []
                    for oname, out in OUTS:
                        if quick and oname == "m" and cname not in ("head_only", "unused", "anon_all"):
                            continue
                        o = out
                        i = inp if out != "auto" else "auto"
                        cfg.append(config(["unused"], i, o, orc("inout" if out != "auto" else "out", costs=True, multiset=False)))
                    yield job("C09", prog, universe, cfg, meta={"prod": pname, "mid": mname, "cons": cname})

    yield from dedupe(gen())
