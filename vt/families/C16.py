"""C16 projection: heads x subsets of a body-literal menu, single(projection)"""

from __future__ import annotations

from vt.families.base import config, dedupe, facts, job, orc, subsets

HEADS = [
    ("h1", "h(X)"),
    ("h2", "h(X,W)"),
    ("h2b", "h(X,Y)"),
    ("h2c", "h(Y,Z)"),
    ("choice", "{ h(X) }"),
    ("disj", "h(X) ; g(X)"),
    ("constraint", ""),
    ("count", "#count { 1 : h(X) } 1"),
    ("h0", "h"),
]

# heads that use body variables in non-binding positions (conditions of a disjunction, bounds): smaller body family
HEADS2 = [
    ("disj_cmp", "h(X) : t(X), X < Z ; g(Y)"),
    ("disj_neg", "h(X) : not s(X,Z) ; g(W)"),
    ("choice_ub", "1 { h(V,W) : u(V) } Z"),
    ("choice_lb", "Z { h(V,W) : u(V) }"),
    ("choice_lb_ub", "W { h(V,X) : u(V) } Z"),
    ("hagg_ub", "0 #sum { 1,V : h(V,Z) : u(V) } W"),
]

MENU = [
    "q(X,Y,Z)",
    "q(X,Y,_)",
    "r(X,W)",
    "r(Y,W)",
    "t(E)",
    "not s(Y,E)",
    "s(Y,E)",
    "Y < Z",
    "W = Y+1",
    "X != W",
    "u(Z) : v(Z,Y)",
    "u(V) : v(V,Y)",
    "1 <= #sum { 1,V : v(V,Y) }",
    "N = #sum { V : v(V,X) }",
    "not t(X)",
    "h(Y)",
    "not 1 <= #sum { 1,V : v(V,Y) }",
    "u(Y) : v(Y,Z)",
    "1 <= #sum { 1,Y : v(Y,E) }",
    "r(X/2,W)",
    "r(X+1,W)",
    "r(2*X,W)",
    "K = X/2",
    "r(K,W)",
    "q(X,Y/2,Z)",
    "t(|Y|)",
]

IN0 = [["q", 3], ["r", 2], ["t", 1], ["s", 2], ["v", 2], ["u", 1]]
U_Q = ["q(1,1,2)", "q(1,2,1)", "q(2,1,1)", "r(1,1)", "r(1,2)", "t(1)", "t(2)", "s(1,1)", "s(2,2)", "v(1,1)", "v(2,1)",
       "u(1)"]


def jobs(tier: str):
    kmin = 3
    kmax = 3 if tier == "quick" else 4
    universe = U_Q[:10] if tier == "quick" else U_Q
    max_facts = 4 if tier == "quick" else 4
    oracle = orc("voc", costs=True, multiset=True)

    core = ["q(X,Y,Z)", "r(X,W)", "t(E)", "not s(Y,E)", "Y < Z", "u(Z) : v(Z,Y)", "u(W) : v(Z,V)", "u(V) : v(V,Y)",
            "1 <= #sum { 1,V : v(V,Y) }", "r(Y,K)"]

    def bodies():
        yield from subsets(MENU, kmin, 3)
        if kmax >= 4:
            yield from subsets(MENU[:16], 4, 4)
        if kmax < 4:
            yield from subsets(core, 4, 4)
        yield from (c + ("u(W) : v(Z,V)",) for c in subsets(MENU[:6], 3, 3))
        yield from (c + ("r(Y,K)", "u(K) : v(Z,V)") for c in subsets(MENU[:6], 2, 2))
        arith = ["r(X/2,W)", "r(X+1,W)", "r(2*X,W)", "K = X/2", "q(X,Y/2,Z)", "t(|Y|)", "W = Y+1",
                 # nested unary operations: an invertible outer minus around a non-invertible |.| / ~ binds nothing
                 "r(-|Y|,W)", "t(-|Y|)", "r(-(~Y),W)", "r(-(-Y),W)", "r(-|Z|,E)"]
        for a in arith:
            yield from (c + (a,) for c in subsets(["q(X,Y,Z)", "r(W,E)", "t(E)", "r(X,W)", "s(Y,E)", "r(K,W)"], 2, 3))
        # doubly negated literals bind nothing: an atom / an assigning aggregate under `not not` next to the real binders
        dneg = ["not not q(X,Y,Z)", "not not r(X,W)", "not not s(Y,E)", "not not X = #count { V : v(V,Y) }",
                "not not N = #sum { V : v(V,X) }", "not not r(Y,W)"]
        for d in dneg:
            yield from (c + (d,) for c in subsets(["q(X,Y,Z)", "r(X,W)", "r(Y,W)", "t(E)", "s(Y,E)", "v(Z,E)", "t(N)"], 2, 3))

    def gen():
        for hname, head in HEADS + [("h3", "h(X,W,K)")]:
            for lits in bodies():
                body = "; ".join(lits)
                sep = " :- " if head else ":- "
                prog = f"{head}{sep}{body}."
                yield job("C16", prog, universe, [config(["projection"], IN0, [], oracle)], max_facts=max_facts,
                          meta={"head": hname, "lits": list(lits)})

    def gen2():
        for hname, head in HEADS2:
            for lits in list(subsets(MENU[:9], 3, 3)) + list(subsets(core, 4, 4)):
                yield job("C16/heads2", f"{head} :- {'; '.join(lits)}.", universe, [config(["projection"], IN0, [], oracle)],
                          max_facts=max_facts, meta={"head": hname, "lits": list(lits)})

    yield from dedupe(gen())
    yield from dedupe(gen2())
