"""C05 normalisation only (--enable none): old-style aggregates, #count, #inf/#sup guards, comparison chains,
pools, arithmetic in atoms, X = t equalities.  Facts over ANY predicate (also derived ones)."""

from __future__ import annotations

from itertools import combinations

from vt.families.base import config, dedupe, job, orc


def statements(tier: str):
    out = []
    # old-style body aggregates
    elems = ["p(X)", "p(X) : q(X)", "not p(X) : q(X)", "p(X) ; q(X)", "r(X,_)", "r(X,Y) : q(Y)", "X < 2 : p(X)",
             "#true : p(X)", "p(1..2)", "p(X) : q(X) ; p(X) : r(X,_)", "not not p(X) : q(X)", "#false : p(X)",
             "not r(_,X) : q(X)", "p(X) : q(X), X > 0", "X = 1 : p(X) ; X = 1 : q(X)",
             # the same atom under different signs counts once per sign
             "p(X) ; not not p(X)", "p(X) ; not p(X)", "not p(X) : q(X) ; not not p(X) : q(X)",
             "p(X) : q(X) ; not not p(X) : q(X) ; not p(X) : q(X)"]
    for lb in ("", "1 ", "2 "):
        for ub in ("", " 1", " 2"):
            for el in elems:
                for neg in ("", "not "):
                    out.append(("old", f"a :- {neg}{lb}{{ {el} }}{ub}."))
    for el in ("not not p(_)", "not not r(_,X) : q(X)", "not p(_)", "r(_,_)", "not not r(X,_) ; p(_)", "not not p(1;2)",
               "p(_) : q(_)"):
        for lb in ("", "1 "):
            out.append(("old", f"a :- {lb}{{ {el} }}."))
            out.append(("old", f"a(N) :- N = {{ {el} }}, q(N)."))
    out.append(("old", "a(N) :- N = { p(X) }."))
    out.append(("old", "a(Y) :- q(Y), Y { p(X) ; r(X,Y) }."))
    out.append(("old", "a(Y) :- q(Y), { r(X,Y) } = 1."))
    # #count
    for g in ("1 <= #count { X : p(X) }", "#count { X : p(X) } <= 1", "1 <= #count { X : p(X) } <= 2",
              "#count { X : p(X) } != 1", "#count { X,Y : r(X,Y) ; X : p(X) } >= 2", "#count { X : p(X) ; X : q(X) } = 2",
              "#count { 1 : p(X) } = 1", "#count { X : p(X), not q(X) } > 0", "not #count { X : p(X) } = 1"):
        out.append(("count", f"a :- {g}."))
    out.append(("count", "a(N) :- N = #count { X : p(X) }."))
    out.append(("count", "a(N) :- N = #count { X : p(X) ; X : q(X) }."))
    out.append(("count", ":~ N = #count { X : p(X) }. [N@1]"))
    # #inf / #sup guards
    for f in ("sum", "min", "max", "count", "sum+"):
        agg = "#%s { X : p(X) }" % f
        for g in (f"#inf <= {agg}", f"{agg} <= #sup", f"#sup >= {agg}", f"{agg} >= #inf", f"#inf < {agg}",
                  f"{agg} < #sup", f"#inf <= {agg} <= 2", f"1 <= {agg} <= #sup", f"#sup <= {agg}", f"{agg} <= #inf",
                  f"#inf >= {agg}", f"{agg} >= #sup", f"#inf <= {agg} <= #sup", f"{agg} != #inf", f"{agg} = #sup",
                  f"#sup > {agg}", f"#inf != {agg}"):
            out.append(("infsup", f"a :- {g}."))
            out.append(("infsup", f"a :- not {g}."))
    # comparison chains
    for c in ("X < Y < Z", "X <= Y != Z", "X = Y = Z", "X < Y < Z < 3", "1 < X < 3", "not X < Y < Z",
              "not X = Y = Z", "not 1 < X <= 2", "X != Y != Z", "0 <= X <= Y <= Z", "not X < Y <= Z < 3", "X < Y > Z",
              "1 <= X = Y", "not not X < Y < Z"):
        out.append(("chain", f"a(X) :- p(X), q(Y), r(Z,_), {c}."))
    for c in ("0 < Y < 2", "not 0 < Y < 2", "0 < Y = X"):
        out.append(("chain", f"a :- q(X), p(Y) : q(Y), {c}."))
        out.append(("chain", f"a(S) :- S = #sum {{ Y : p(Y), {c.replace('X', '1')} }}."))
        out.append(("chain", f"a :- 1 {{ p(Y) : q(Y), {c.replace('X', '1')} }}."))
    for c in ("X < (1;2) < Y", "0 < (1..3) < X", "not X < (1;2) < Y", "X < Y < (2;3)", "(0;1) < X < Y", "3 < (1..4) < 2",
              "X < (Y;Y+1) <= 3"):
        out.append(("chain", f"a(X,Y) :- p(X), q(Y), {c}."))
        out.append(("chain", f"a :- q(X), p(Y) : q(Y), {c}."))
    out.append(("chain", ":~ p(X), q(Y), 0 < X < Y. [1@1,X,Y]"))
    out.append(("chain", ":~ p(X), q(Y), not 0 < X < Y. [1@1,X,Y]"))
    # pools
    for s in ("a(X;Y) :- r(X,Y).", "a(X) :- p(X;X+1).", "a :- p(1;2).", "a(1;2).", "a :- q(X) : p(X;1).",
              "a(S) :- S = #sum { X : p(X;2) }.", ":~ p(X;Y), r(X,Y). [X@1]", "a(X) :- p(X), X = (1;2).",
              "a(X) :- p(X), not q(X;X+1).", "a((1;2),X) :- p(X).", "{ a(X;Y) } :- r(X,Y).", "a(X) ; b(X) :- p(X;0).",
              "a :- 1 { p(1;2) }.", "a(S) :- S = #sum { (X;Y) : r(X,Y) }.", "a(X) :- p(X), q((X;X+1))."):
        out.append(("pool", s))
    # arithmetic inside atoms / tuples / weights
    for s in ("a(X+1) :- p(X).", "a(X) :- p(X+1).", "a(X) :- p(X), q(X-1).", "a(X) :- p(X), not q(X+1).",
              "a :- q(X+1) : p(X).", "a :- q(Y) : p(X), Y = X+1.", "a(S) :- S = #sum { X+1 : p(X) }.",
              "a(S) :- S = #sum { X : p(X), q(X+1) }.", ":~ p(X). [X+1@1]", ":~ p(X). [1@X+1]", ":~ p(X). [1@1,X+1]",
              "a(2*X) :- p(X).", "a(-X) :- p(X).", "a(|X-1|) :- p(X).", "{ a(X+1) } :- p(X).", "a(X+1) ; b(X) :- p(X).",
              "a(X+Y) :- r(X,Y).", "a(X) :- r(X,Y), p(X+Y).", "a(X) :- p(X), q(2*X).", "a(X) :- p(X), q(X*X).",
              "a(X) :- p(X), r(X+1,X-1).", "a(X/2) :- p(X).", "a(X\\\\2) :- p(X).", "a(X**2) :- p(X).",
              ":~ r(X,Y). [X-Y@X+Y,X*Y]", "#minimize { X+1@1,X : p(X) }.", "#maximize { 2*X@1 : p(X) }.",
              ":~ p(X+1), q(X). [X*2@1,X]", "a(X*2) :- p(X+1), q(X).", ":~ p(X), q(X+1). [X+1@X+1,X+1]",
              "a(X+1) :- p(X+1), q(X+1), not r(X+1,X+2).", "#minimize { X+1@1,X : p(X+1) ; X*2@1,X,b : q(X*2) }.",
              "a(X+1,X+1) :- p(X).", "a(X) :- p(X), q(X+1), q(X+1).", "1 { a(X+1) : p(X) } 1."):
        out.append(("arith", s))
    # X = t equalities
    for s in ("a(X) :- f(X), X = g(_).", "a(X) :- f(X), X = g(_,Y), q(Y).", "a :- f(X), X = g(_), not f(g(1)).",
              "a(X) :- f(X), g(_) = X.", "a :- q(Y), p(X) : f(X), X = g(_).", "a(X) :- f(X), not X != g(_)."):
        out.append(("eq", s))
    for t in ("Y", "Y+1", "f(Y)", "2*Y", "1..2", "(Y;1)", "Y-1", "-Y", "|Y|", "Y*Y", "Y/2"):
        out.append(("eq", f"a(X) :- q(Y), X = {t}."))
        out.append(("eq", f"a(X) :- q(Y), {t} = X."))
        out.append(("eq", f"a(X) :- p(X), q(Y), X = {t}."))
        out.append(("eq", f"a :- q(Y), X = {t}."))
        out.append(("eq", f"a :- q(Y), p(X) : X = {t}, q(X)."))
        out.append(("eq", f"a(S) :- q(Y), S = #sum {{ X : X = {t}, p(X) }}."))
        out.append(("eq", f"a(X) :- q(Y), not X != {t}, p(X)."))
        out.append(("eq", f"a(X) :- q(Y), not not X != {t}, p(X)."))
        out.append(("eq", f"a(X) :- q(Y), not not X = {t}, p(X)."))
        out.append(("eq", f"a(S) :- q(Y), S = #sum {{ X : not not X != {t}, p(X) }}."))
        out.append(("eq", f":~ q(Y), X = {t}. [X@1]"))
    for t in ("Y+1", "Y", "2*Y", "Y-1"):
        out.append(("eq", f"a(X) :- p(X), q(Y) : r(Y,_), X = {t}."))
        out.append(("eq", f"a(X) :- p(X), q(Y) : r(Y,_), {t} = X."))
        out.append(("eq", f"a(X) :- p(X), not q(Y) : p(Y), not X != {t}."))
        out.append(("eq", f"a(X) :- p(X), 1 <= #sum {{ 1,Y : q(Y), X = {t} }}."))
        out.append(("eq", f"a(X,S) :- p(X), S = #sum {{ Y : q(Y), {t} = X }}."))
        out.append(("eq", f":~ p(X), q(Y) : r(Y,_), X = {t}. [1@1,X]"))
    for s in ("a(X) :- p(X), X = X+1.", "a(X) :- p(X), X = X*1.", "a(X) :- p(X), q(Y), X = Y, Y = X.",
              "a(X) :- p(X), q(Y), X = Y+1, Y = X-1.", "a :- p(X), X = 1.", "a(X) :- p(X), not X != 1.",
              "a(X,Z) :- p(X), Z = X+1, q(Z).", "a(Z) :- p(X), q(Y), Z = X+Y.", "a(Z) :- p(X), Z = X+1, Z = 2.",
              "a(X) :- p(X), X = 1, X = 2.", "a(X) :- X = 1, p(X).", "a(X) :- X = 1.", "a(X,Y) :- (X,Y) = (1,2).",
              "a(X) :- p(Y), X = Y+1, not q(X).", "a(X) :- p(Y), X = Y+1, r(X,X).", "a(Y) :- p(X), X = 2*Y, q(Y).",
              "a(Y) :- p(X), X = 2*Y.", "a(X) :- q(Y), X = Y+1, 1 { p(X) }.", "a :- q(Y), 1 <= #sum { 1 : p(X), X = Y }.",
              "a :- q(Y), 1 <= #sum { 1 : p(X), Y = X }."):
        out.append(("eq", s))
    return out


CORE = [
    "a :- 1 { p(X) : q(X) } 2.",
    "a(N) :- N = #count { X : p(X) }.",
    "a :- #inf <= #sum { X : p(X) }.",
    "a(X) :- p(X), q(Y), r(Z,_), X < Y < Z.",
    "a(X;Y) :- r(X,Y).",
    "a(X+1) :- p(X).",
    "a(X) :- q(Y), X = Y+1.",
    ":~ p(X). [X+1@1]",
    "b(X) :- a(X), not q(X+1).",
    "{ b(X) } :- p(X), not a(X).",
    "c(S) :- S = #sum { X : a(X) ; 1,b : b(X) }.",
    ":- b(X), a(X-1).",
]


def universe(prog: str, tier: str) -> list[str]:
    u = ["p(0)", "p(1)", "p(2)", "p(3)", "q(1)", "q(2)", "q(3)", "r(1,2)", "r(2,2)"]
    if "a(" in prog.replace("a((", "a("):
        u.append("a(1)")
    elif "a" in prog:
        u.append("a")
    if "b(" in prog:
        u.append("b(1)")
    if "f(X)" in prog:  # function terms as values
        u = ["f(g(1))", "f(g(2))", "f(g(1,2))", "f(1)", "q(1)", "q(2)"] + [x for x in u if x.startswith("a")]
    return u


def jobs(tier: str):
    oracle = orc("voc", costs=True, multiset=True)

    def gen():
        for kind, stm in statements(tier):
            yield job("C05/" + kind, stm, universe(stm, tier), [config([], [], [], oracle)], meta={"kind": kind})
        for a, b in combinations(CORE, 2):
            prog = a + "\n" + b
            yield job("C05/pair", prog, universe(prog, tier), [config([], [], [], oracle)], meta={"kind": "pair"})
        if tier != "quick":
            sts = [s for _, s in statements(tier)]
            for a in CORE:
                for b in sts[::3]:
                    prog = a + "\n" + b
                    yield job("C05/pair2", prog, universe(prog, tier), [config([], [], [], oracle)], meta={"kind": "pair2"})

    yield from dedupe(gen())
