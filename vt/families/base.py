"""helpers to build jobs from slot grammars"""

from __future__ import annotations

from itertools import combinations, product
from typing import Iterable, Iterator, Optional, Sequence

from vt.common import h


def facts(pred: str, *domains: Sequence) -> list[str]:
    """ground facts pred(d1,..,dn) for the cartesian product of the domains"""
    if not domains:
        return [pred]
    return [f"{pred}({','.join(str(x) for x in tup)})" for tup in product(*domains)]


def orc(mode: str, costs: bool = True, multiset: bool = True, preds=None) -> dict:
    d = {"mode": mode, "costs": costs, "multiset": multiset}
    if preds is not None:
        d["preds"] = preds
    return d


def config(traits: list[str], inp, out, oracle: dict) -> dict:
    return {"traits": list(traits), "inp": inp, "out": out, "oracle": oracle}


def job(
    family: str,
    prog: str,
    universe: Sequence[str],
    configs: list[dict],
    consts: Sequence[tuple[str, str]] = (),
    max_facts: Optional[int] = None,
    checks: Sequence[str] = ("semantic",),
    meta: Optional[dict] = None,
) -> dict:
    return {
        "id": h(family + "|" + prog + "|" + repr(sorted(universe)) + repr(list(consts)) + repr(max_facts)),
        "family": family,
        "prog": prog,
        "universe": list(universe),
        "configs": configs,
        "consts": [tuple(c) for c in consts],
        "max_facts": max_facts,
        "checks": list(checks),
        "meta": meta or {},
    }


def subsets(menu: Sequence, kmin: int, kmax: int) -> Iterator[tuple]:
    for k in range(kmin, kmax + 1):
        yield from combinations(menu, k)


def dedupe(jobs: Iterable[dict]) -> Iterator[dict]:
    seen = set()
    for j in jobs:
        if j["id"] in seen:
            continue
        seen.add(j["id"])
        yield j
