"""composition corpus (multi-feature programs) and helpers to re-run family programs under other configurations"""

from __future__ import annotations

import importlib
from typing import Callable, Iterable, Iterator

from vt.families.base import config, job, orc

# name, program, IN, OUT, universe, const overrides menu
CORPUS = [
    ("readme_cleanup", """b(X,Y) :- dom(X), dom(Y), X+Y < 4.
a(X,Y) :- b(X,Y), dom(X), dom(Y).
{ c(X) } :- a(X,_).
foo :- c(X), dom(X).
#show foo/0. #show c/1.""", [["dom", 1]], [["foo", 0], ["c", 1]], ["dom(1)", "dom(2)", "dom(3)"], [[]]),
    ("shift_symmetry", """worker(W) :- employee(W).
{ shift(W,D) : worker(W) } :- day(D).
:- shift(W1,D), shift(W2,D), W1 != W2.
#show shift/2.""", [["employee", 1], ["day", 1]], [["shift", 2]], ["employee(a)", "employee(b)", "day(1)", "day(2)"], [[]]),
    ("minmax_objective", """sel(P,V) :- base(P,V).
{ sel(P,V) } :- skill(P,V).
best(P,X) :- person(P), X = #max { V : sel(P,V) }.
total(S) :- S = #sum { X,P : best(P,X) }.
#minimize { X@1,P : best(P,X) }.
#show sel/2. #show total/1.""", [["base", 2], ["skill", 2], ["person", 1]], [["sel", 2], ["total", 1]],
     ["person(a)", "person(b)", "base(a,1)", "base(b,0)", "skill(a,3)", "skill(b,2)"], [[]]),
    ("sumchain_inline", """{ shift(D,L) : pshift(D,L) } 1 :- day(D).
load(D,S) :- day(D), S = #sum { L : shift(D,L) }.
total(T) :- T = #sum { S,D : load(D,S) }.
:- total(T), T > 5.
:~ shift(D,L). [L@1,D]
#show shift/2.""", [["pshift", 2], ["day", 1]], [["shift", 2]],
     ["day(1)", "day(2)", "pshift(1,2)", "pshift(1,4)", "pshift(2,2)", "pshift(2,3)"], [[]]),
    ("readme_math", """{ a ; b }.
r :- X = #sum { 1,a : a }, Y = #sum { 1,b : b }, X+Y = 2.
cnt(N) :- N = #count { V : p(V), V > 1 }.
ok :- cnt(N), M = #sum { W : q(W) }, N + M >= 3.
#show r/0. #show ok/0.""", [["p", 1], ["q", 1]], [["r", 0], ["ok", 0]], ["p(1)", "p(2)", "p(3)", "q(1)", "q(2)"], [[]]),
    ("duplication_projection", """{ e(X,Y) } :- edge(X,Y).
r1(X) :- e(X,Y), node(Y), not blocked(Y), start(X).
r2(X,Z) :- e(X,Y), node(Y), not blocked(Y), e(Y,Z).
cnt(N) :- N = #count { X,Y : e(X,Y), node(Y), not blocked(Y) }.
#show r1/1. #show r2/2. #show cnt/1.""", [["edge", 2], ["node", 1], ["blocked", 1], ["start", 1]],
     [["r1", 1], ["r2", 2], ["cnt", 1]], ["edge(1,2)", "edge(2,3)", "node(2)", "node(3)", "blocked(3)", "start(1)"], [[]]),
    ("unused_copies", """p(X,Y) :- in(X,Y).
q(X) :- p(X,_).
{ s(X) } :- q(X).
t(X) :- s(X), not q(X+1).
#show t/1.
#show has(X) : s(X).""", [["in", 2]], [["t", 1], ["s", 1]], ["in(1,1)", "in(2,1)", "in(3,2)"], [[]]),
    ("const_interval", """#const n = 2.
cell(1..n).
{ put(X,V) : cell(V) } = 1 :- cell(X).
:- put(X,V), put(Y,V), X < Y.
big :- put(X,V), V >= n.
#show put/2. #show big/0.""", [], [["put", 2], ["big", 0]], [], [[], [("n", "1")], [("n", "3")]]),
    ("heads_mix", """a(X) ; b(X) :- d(X).
1 #sum { 1,X : c(X) : a(X) } 2 :- d(_).
ok :- c(X) : a(X), d(X).
:- b(X), c(X+1).
#show c/1. #show ok/0.""", [["d", 1]], [["c", 1], ["ok", 0]], ["d(1)", "d(2)"], [[]]),
    ("symmetry_math", """{ q(X,Y) } :- dq(X,Y).
bad(Y) :- q(A,Y), q(B,Y), A != B.
n(N) :- N = #count { Y : bad(Y) }.
:- n(N), N > 1.
#show q/2. #show n/1.""", [["dq", 2]], [["q", 2], ["n", 1]], ["dq(1,1)", "dq(2,1)", "dq(1,2)", "dq(3,2)"], [[]]),
    ("minmax_bounds", """{ v(P,X) } :- dv(P,X).
hi(P) :- grp(P), #max { X : v(P,X) } >= 2.
lo(P) :- grp(P), #min { X : v(P,X) } < 1, v(P,_).
both(P) :- hi(P), lo(P), grp(P).
#show both/1.""", [["dv", 2], ["grp", 1]], [["both", 1]], ["grp(1)", "grp(2)", "dv(1,0)", "dv(1,2)", "dv(2,3)"], [[]]),
    ("knapsack_objectives", """{ pick(I) : item(I,_,_) }.
:- #sum { W,I : pick(I), item(I,W,_) } > 4.
#maximize { V@2,I : pick(I), item(I,_,V) }.
:~ pick(I), item(I,W,_). [W@1,I]
#show pick/1.""", [["item", 3]], [["pick", 1]], ["item(a,2,3)", "item(b,3,4)", "item(c,4,1)"], [[]]),
    ("helper_in_objective", """{ pe(V,Y) } :- dpe(V,Y).
h(V,S) :- g(V), S = #sum { Y : pe(V,Y) }.
:~ h(V,S). [S@1,V]
m(X) :- X = #min { Y : pe(V,Y) }.
far :- m(X), X > 2.
#show pe/2. #show far/0.""", [["dpe", 2], ["g", 1]], [["pe", 2], ["far", 0]], ["g(1)", "g(2)", "dpe(1,2)", "dpe(1,3)", "dpe(2,3)"], [[]]),
    ("negation_domain", """{ on(X) } :- sw(X).
{ a(X) } :- d(X), not on(X).
:- a(X), a(Y), X != Y.
cost(C) :- C = #sum { X : a(X) }.
#minimize { X@1,X : a(X) }.
#show a/1. #show cost/1.""", [["sw", 1], ["d", 1]], [["a", 1], ["cost", 1]], ["sw(1)", "sw(2)", "d(1)", "d(2)", "d(3)"], [[]]),
]

HAS_OBJECTIVE = {"minmax_objective", "sumchain_inline", "knapsack_objectives", "helper_in_objective", "negation_domain"}


def corpus_job(name, prog, inp, out, universe, consts, cfgs, family, checks=("semantic",)) -> dict:
    return job(family, prog, universe, cfgs, consts=consts, checks=checks, meta={"corpus": name})


def family_jobs(names: Iterable[str], tier: str, variants: int = 0) -> Iterator[dict]:
    """the programs of the named families; variants = k > 0 adds the syntactic and semantic variants
    (vt/families/mutate.py) of k evenly spaced programs of the sub-bounded slice (quick) / of every program (thorough)"""
    for name in names:
        mod = importlib.import_module(f"vt.families.{name}")
        if not variants:
            # shapes marked owner_only belong to the owning check alone (not re-run by the composite checks)
            yield from (j for j in mod.jobs(tier) if not j["meta"].get("owner_only"))
            continue
        from vt.checks.C01 import slice_keep  # pylint: disable=import-outside-toplevel
        from vt.families import mutate  # pylint: disable=import-outside-toplevel

        jobs = [j for j in mod.jobs(tier) if not j["meta"].get("owner_only")]
        yield from jobs
        keep = slice_keep(tier)
        base = sorted((j for j in jobs if keep(j)), key=lambda j: j["id"])
        cap = variants if tier == "quick" else 5 * variants
        if len(base) > cap:
            base = [base[(k * len(base)) // cap] for k in range(cap)]  # evenly spaced
        yield from mutate.variants(base)
        yield from mutate.variants2(base)


def remap(jobs: Iterable[dict], family: str, make_configs: Callable[[dict, dict], list], checks=("semantic",),
          keep: Callable[[dict], bool] = lambda j: True) -> Iterator[dict]:
    """same programs and universes, other configurations: make_configs(job, first original config) -> configs"""
    for j in jobs:
        if not keep(j):
            continue
        cfgs = make_configs(j, j["configs"][0])
        if not cfgs:
            continue
        yield job(family + "/" + j["family"], j["prog"], j["universe"], cfgs, consts=j["consts"],
                  max_facts=j["max_facts"], checks=checks, meta=j["meta"])


def has_objective(prog: str) -> bool:
    return ":~" in prog or "#minimize" in prog or "#maximize" in prog


OWNER = {"C05": [], "C08": ["cleanup"], "C09": ["unused"], "C10": ["duplication"], "C11": ["symmetry"],
         "C12": ["minmax_chains"], "C13": ["sum_chains"], "C14": ["math"], "C15": ["inline"], "C16": ["projection"]}
