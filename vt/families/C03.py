"""C03: construct zoo singles / pairs / triples and the frozen test-suite corpus; termination only"""

from __future__ import annotations

import json
import os
from itertools import combinations

from vt.common import DEFAULT, TRAITS, all_subsets
from vt.families.base import config, dedupe, job, orc
from vt.families.zoo import CONTEXT, IN0, THEORY, UNITS, ZOO

NOORC = orc("out", costs=False, multiset=False)

CONFIG12 = [[]] + [[t] for t in TRAITS] + [DEFAULT, TRAITS]
DECLS = [([], []), ("auto", "auto"), (IN0, []), ([["zz", 3]], [["yy", 1], ["a", 1]])]


def corpus() -> list[dict]:
    with open(os.path.join(os.path.dirname(os.path.dirname(__file__)), "corpus_tests.json"), encoding="utf8") as f:
        return json.load(f)


def singles() -> list[str]:
    return ZOO + [THEORY[0] + "\n" + THEORY[1]]


def family_programs(tier: str):
    """programs of the per-pass families (result rules x users), re-used for termination under many configurations"""
    from vt.families import C12, C13  # pylint: disable=import-outside-toplevel

    for fam in (C12, C13):
        for j in fam.jobs(tier):
            if j["meta"].get("owner_only"):
                continue
            yield j["prog"], j["configs"][0]["inp"]


CORE20 = [
    "a(X) :- d(X), not e(X).",
    "{ a(X) : d(X) } 1.",
    "1 #sum { X,a : a(X) : d(X) } 3.",
    "a(X) ; b(X) :- d(X).",
    "a(S) :- S = #sum { X : s(X) }.",
    "a(S) :- S = #max { X : s(X) }.",
    "a :- #sum { X : s(X) }.",
    "a :- 1 <= #sum { X : s(X) } <= 4.",
    "a(S+T) :- S = #sum { X : s(X) }, T = #max { Y : t(X,Y) }.",
    "a :- d(Y), s(X) : q(Y,X).",
    "a(X;Y) :- q(X,Y).",
    "a(X..Y) :- q(X,Y).",
    "a(Y) :- d(X), Y = X+1.",
    ":~ s(X). [X@1,X]",
    "#minimize { X@1,X : s(X) ; 1@2 : not s(1) }.",
    "#show s/1.",
    "{ sh(D,L) : q(D,L) } 1 :- d(D).",
    "r(S) :- S = #sum { L,D : sh(D,L) }.",
    ":- t(X,Y), t(X,Z), Y != Z.",
    "-a(X) :- d(X), not s(X).",
]


def jobs(tier: str):
    quick = tier == "quick"

    def gen():
        cfgs1 = CONFIG12 if quick else all_subsets(TRAITS)
        for stm in singles():
            prog = CONTEXT + "\n" + stm
            cfg = [config(t, i, o, NOORC) for t in cfgs1 for (i, o) in DECLS]
            yield job("C03/single", prog, [], cfg, checks=["terminate"], meta={"stm": stm})
        for stm in UNITS:
            prog = CONTEXT + "\n" + stm
            cfg = [config(t, i, o, NOORC) for t in cfgs1 for (i, o) in DECLS]
            yield job("C03/unit", prog, [], cfg, checks=["terminate"], meta={"stm": stm})
        nounused = [t for t in DEFAULT if t != "unused"]
        famcfg = [["minmax_chains"], ["sum_chains"], nounused, DEFAULT, TRAITS] if quick else CONFIG12 + [nounused]
        fam_progs = list(family_programs(tier))
        if quick and len(fam_progs) > 900:  # evenly spaced
            fam_progs = [fam_progs[(k * len(fam_progs)) // 900] for k in range(900)]
        for prog, inp in fam_progs:
            cfg = [config(t, i, o, NOORC) for t in famcfg for (i, o) in ((inp, []),)]
            yield job("C03/family", prog, [], cfg, checks=["terminate"], meta={})
        cfgs2 = [TRAITS] if quick else CONFIG12
        for a, b in combinations(singles(), 2):
            prog = CONTEXT + "\n" + a + "\n" + b
            cfg = [config(t, "auto", "auto", NOORC) for t in cfgs2]
            yield job("C03/pair", prog, [], cfg, checks=["terminate"], meta={"stms": [a, b]})
        if not quick:
            for tri in combinations(CORE20, 3):
                prog = CONTEXT + "\n" + "\n".join(tri)
                cfg = [config(t, "auto", "auto", NOORC) for t in (DEFAULT, TRAITS)]
                yield job("C03/triple", prog, [], cfg, checks=["terminate"], meta={"stms": list(tri)})
        for ent in corpus():
            decls = [("auto", "auto"), ([], [])] + [(p, []) for p in ent["preds"][:1]]
            cfg = [config(t, i, o, NOORC) for t in ((DEFAULT, TRAITS) if quick else CONFIG12) for (i, o) in decls]
            yield job("C03/corpus", ent["prog"], [], cfg, checks=["terminate"], meta={"src": ent["src"]})

    yield from dedupe(gen())
