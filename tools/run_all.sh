#!/bin/bash
# run every registered quick (or thorough) check on /repo's current tree, one after the other; print a summary table
tier=${1:-quick}
cd "$(dirname "$0")/.."
mkdir -p /tmp/vt_runall
for c in C18 C05 C13 C09 C11 C12 C16 C10 C15 C08 C14 C20 C07 C02 C06 C04 C01 C19 C03 C17; do
  start=$(date +%s)
  ./check $c --tier $tier > /tmp/vt_runall/$c.log 2>&1
  rc=$?
  end=$(date +%s)
  echo "$c exit=$rc wall=$((end-start))s violations=$(grep -c '^VIOLATION' /tmp/vt_runall/$c.log) known=$(grep -c '^KNOWN-FINDING' /tmp/vt_runall/$c.log)"
done
