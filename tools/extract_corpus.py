#!/venv/bin/python
"""freeze the input programs of the repository's parametrised tests into vt/corpus_tests.json
(run once at authoring time; the checks only read the frozen file)"""
import importlib.util
import json
import os
import sys

from clingo.ast import parse_string

sys.path.insert(0, "/repo")
out = []
seen = set()
tests = "/repo/tests"
for fn in sorted(os.listdir(tests)):
    if not fn.startswith("test_") or not fn.endswith(".py"):
        continue
    spec = importlib.util.spec_from_file_location("tests." + fn[:-3], os.path.join(tests, fn))
    mod = importlib.util.module_from_spec(spec)
    spec.loader.exec_module(mod)
    for name in dir(mod):
        f = getattr(mod, name)
        marks = getattr(f, "pytestmark", None)
        if not callable(f) or not marks:
            continue
        for m in marks:
            if m.name != "parametrize":
                continue
            argnames, argvalues = m.args[0], m.args[1]
            if isinstance(argnames, str):
                argnames = [a.strip() for a in argnames.split(",")]
            for idx, vals in enumerate(argvalues):
                if hasattr(vals, "values"):
                    vals = vals.values
                if not isinstance(vals, (tuple, list)):
                    vals = (vals,)
                prog = None
                preds = []
                for an, v in zip(argnames, vals):
                    if prog is None and isinstance(v, str):
                        prog = v
                    elif isinstance(v, (list, tuple)) and v and all(type(x).__name__ == "Predicate" for x in v):
                        preds.append([[x.name, x.arity] for x in v])
                if prog is None:
                    continue
                try:
                    parse_string(prog, lambda s: None)
                except RuntimeError:
                    continue
                key = prog.strip()
                if key in seen:
                    continue
                seen.add(key)
                out.append({"src": f"{fn}::{name}[{idx}]", "prog": prog.strip("\n"), "preds": preds})
json.dump(out, open("/verif/vt/corpus_tests.json", "w"), indent=0)
print(len(out), "programs")
