#!/venv/bin/python
"""print a markdown table of all seeded changes with their final detection status (from seeded/*/meta.json)"""
import glob
import json
import os

HERE = os.path.dirname(os.path.dirname(os.path.abspath(__file__)))
print("| seed | property | needs (abridged) | detected by (quick tier, final machinery) |")
print("|---|---|---|---|")
for d in sorted(glob.glob(os.path.join(HERE, "seeded", "*"))):
    m = json.load(open(os.path.join(d, "meta.json")))
    det = [k.split("/")[0] for k, v in m.get("detected_by", {}).items() if v.get("exit") == 1]
    status = ", ".join(det) if det else ("neutralised: " + m["neutralised_by"][:60] if m.get("neutralised_by") else "—")
    print(f"| {os.path.basename(d)} | {m['property']} | {m.get('needs', '')[:110].replace('|', '\\|')} | {status} |")
