#!/venv/bin/python
"""triage helper: run a family and print one line per violation with its meta data"""
import importlib
import os
import sys

os.environ.setdefault("PYTHONHASHSEED", "0")
os.environ["NGO_VERIF"] = "1"
sys.path.insert(0, os.path.dirname(os.path.dirname(os.path.abspath(__file__))))
from vt import driver  # noqa

fam = importlib.import_module(f"vt.families.{sys.argv[1]}")
tier = sys.argv[2] if len(sys.argv) > 2 else "quick"
agg = driver.Aggregate()
driver.run_pool(fam.jobs(tier), 0, agg.add)
rows = []
for job, cres, v in agg.violations:
    rows.append((str(sorted(job["meta"].items())), v.get("kind"), v.get("culprit"), v.get("error") or v.get("detail", "")[:80],
                 v.get("n_bad"), v.get("instance"), job["prog"].replace("\n", " | ")))
rows.sort(key=lambda r: tuple(str(x) for x in r))
for r in rows:
    print(" ## ".join(str(x) for x in r))
print(len(rows), "violations", agg.jobs, "jobs")
