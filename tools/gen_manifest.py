#!/venv/bin/python
"""generate /verif/MANIFEST.json from the table below (kept in one place so it stays valid)"""
import json
import os
import subprocess

HERE = os.path.dirname(os.path.dirname(os.path.abspath(__file__)))
HOOK_COMMITS = ["9d1a58f"]

TRUST = ("trusted base: clingo 5.8.2 as reference semantics, the splitting-set argument for the combined-instance "
         "encoding (cross-checked per instance), Python set/Counter comparison; bounded: only programs, instances and "
         "configurations within the tier's stated bounds")

# property -> (technique, level text, design ref) ; only properties whose check exists
CHECKS = {
    "C08": ("bounded-exhaustive exploration of the real cleanup pass over a slot grammar x all instances x all answer "
            "sets, clingo as reference model",
            "every program of the DEF x USE x literal-subset grammar is run through optimize(cleanup only); for every "
            "subset of the fact universe all answer sets of source and result are enumerated and compared as multisets "
            "on the whole source vocabulary with costs", "8/C08"),
}

CHECKS["C03"] = (
    "bounded-exhaustive exploration of optimize over a construct zoo (singles x trait configurations x declarations, "
    "all pairs, frozen test inputs) with lasso detection on the traced fixpoint loop",
    "every zoo statement/pair/corpus program is run through the real optimize under the tier's configuration set; the "
    "tracer hook records every stage; oracle: returns a list, no exception/assertion, no revisited loop state (lasso), "
    "<= 30 iterations, <= 120 s CPU", "8/C03")

SEM = ("bounded-exhaustive exploration of the real pass over a slot grammar (plus the variants produced by a fixed list of "
       "syntactic and semantic program mutators) x all instances x all answer sets, clingo as reference model")
CHECKS["C11"] = (SEM, "every program GROUP x EXTRA x CONTEXT x definition is run through optimize(symmetry only); for "
                 "every subset of the fact universe all answer sets of source and result are compared as multisets on "
                 "voc(P) with costs", "8/C11")
CHECKS["C16"] = (SEM, "every rule HEAD x 3..4-subset of the body-literal menu is run through optimize(projection only); "
                 "for every instance of <= 4 facts all answer sets of source and result are compared as multisets on "
                 "voc(P); an unsafe/invalid result is a violation", "8/C16")

CHECKS["C12"] = (SEM, "every program QDEF x AGG-RULE x {min,max} x USER is run through optimize(minmax_chains only); for "
                 "every subset of the fact universe all answer sets of source and result are compared as multisets on "
                 "voc(P) with costs; one known finding (empty emitted domain) is matched by an instance-class matcher", "8/C12")

CHECKS["C13"] = (SEM, "every program AT-MOST-ONE-DEFINITION x EXTRA x USE is run through optimize(sum_chains only); for every "
                 "subset of the fact universe all answer sets of source and result are compared as multisets on voc(P) "
                 "with costs; two known findings are matched by shape matchers", "8/C13")

CHECKS["C05"] = (SEM, "every statement of the normalisation grammar (and pairs with a core) is run through optimize with all traits "
                 "off; facts over input AND derived predicates; all instances, all answer sets, multiset equality on voc(P) "
                 "with costs; the known inline_rule defect is matched by a shape matcher", "8/C05")
CHECKS["C14"] = (SEM, "every statement CONTEXT x BINDERS x 1..2(3)-subset of a 38-literal comparison/aggregate menu is run "
                 "through optimize(math only) over an integer universe with #const overrides; all instances, all answer "
                 "sets, multiset equality on voc(P) with costs; two known findings matched by shape matchers", "8/C14")
CHECKS["C15"] = (SEM, "every program HELPER x aggregate function x USER x declaration is run through optimize(inline only); all "
                 "instances, all answer sets; set equality of (answer set on IN u OUT, costs)", "8/C15")

CHECKS["C09"] = (SEM, "every program PRODUCER x MID x CONSUMER is run through optimize(unused only) under four OUT "
                 "declarations; all instances, all answer sets; set equality of (answer set on IN u OUT or what #show "
                 "displays, costs)", "8/C09")

CHECKS["C01"] = (
    "bounded-exhaustive exploration of optimize over a composition corpus x trait subsets (pairwise bound in quick, all 512 "
    "in thorough) x declarations, the per-pass family programs under default/all and the frozen test inputs; all "
    "instances, all answer sets, clingo as reference model",
    "every execution's result is solved for every instance of the universe and compared with the source on the output "
    "predicates (explicit OUT, or what #show displays with auto-detection; satisfiability when nothing is shown); the "
    "tracer attributes a difference to the first non-equivalent stage", "8/C01")
CHECKS["C10"] = (SEM, "every program with a shared literal SET in two/three statements x CONTEXT x EXTRA x RENAMING is run "
                 "through optimize(duplication only); all instances, all answer sets, multiset equality on voc(P) with costs",
                 "8/C10")

CHECKS["C02"] = (SEM, "every objective-bearing corpus/family program is run under trait subsets (pairwise bound / 512) resp. its "
                 "owning trait and all traits; for every instance the sets {(answer set on IN u OUT or voc(P), cost per "
                 "priority)} of source and result are compared (costs read from clingo under --opt-mode=enum)", "8/C02")
CHECKS["C04"] = (
    "bounded-exhaustive exploration of optimize over family, corpus and zoo programs; every result is loaded into clingo "
    "twice (AST objects via ProgramBuilder, printed text via Control.add), grounded on the whole universe and solved for "
    "all instances",
    "for every explored execution: all returned statements load and ground without error both as AST and as text, printing "
    "is a fixpoint of parsing for every statement, and AST-loaded and text-loaded programs have the same answer sets and "
    "costs for every instance", "8/C04")
CHECKS["C06"] = (SEM, "composition corpus x all 128 subsets of the seven aux-only traits and the family programs under all "
                 "seven: multiset equality of answer sets projected on the source vocabulary (bijection) with costs, for "
                 "every instance", "8/C06")

CHECKS["C17"] = (
    "exhaustive exploration of set-iteration schedules (import-hook controlled scheduler, deviation bound), of optimize-call "
    "histories up to a depth bound in pristine forked processes, and of real interpreters under several PYTHONHASHSEED values",
    "byte-identical output is required for every schedule deviating at <= 1 (2) set-iteration sites from the canonical order, "
    "for every history of <= 2 (3) earlier optimize calls, and across hash seeds of real python -m ngo processes; the "
    "caller's statement list is compared before/after every execution", "8/C17")
CHECKS["C18"] = (
    "exhaustive enumeration of all subsets of <= 2 (3) of 43 syntactic positions of a probe predicate, ground truth known "
    "by construction",
    "for every generated program the three clauses of the property are checked literally on the return values of "
    "auto_detect_input / auto_detect_output", "8/C18")
CHECKS["C19"] = (
    "exhaustive enumeration of the command-line option space (all --enable lists up to a length bound, all forms of the "
    "predicate and --log options) against a reference model of the documented expansion, plus python -m ngo subprocesses "
    "for all 512 trait subsets",
    "in-process runs of the real parser/actions/main() with optimize and parse_files replaced by spies check flags, IN, OUT "
    "and stdout; end-to-end subprocess runs compare stdout byte for byte with the in-process optimize() result", "8/C19")

CHECKS["C07"] = (
    "bounded-exhaustive exploration of name-inventing trigger programs x vocabulary / variable / layout / declaration "
    "attacks (attack names derived by running the trigger), semantic oracle (clingo) plus structural interface oracle",
    "for every attacked program and trait configuration: answer sets on the interface are unchanged for all instances "
    "(a captured name or variable changes meaning), inputs get no new defining rule, invented heads do not coincide with "
    "declared predicates, non-rule statements are printed verbatim in source order", "8/C07")
CHECKS["C20"] = (SEM + "; reference model of domain/min/max/next in Python evaluated on every answer set of the result",
                 "for every program on which symmetry/minmax_chains/sum_chains emit domain and order predicates, every "
                 "instance and every answer set of the result: p(t) => dom_p(t), domain/order predicates identical across "
                 "answer sets, min/max/next = extremes / covering relation of the sorted domain values per group", "8/C20")

ALL = [f"C{i:02d}" for i in range(1, 21)]


def main() -> None:
    checks = []
    for pid in ALL:
        if pid not in CHECKS:
            continue
        tech, text, ref = CHECKS[pid]
        checks.append({
            "property_id": pid,
            "quick_cmd": f"./check {pid} --tier quick",
            "thorough_cmd": f"./check {pid} --tier thorough",
            "evidence_file": f"/verif/evidence/{pid}.json",
            "replay_cmd_template": f"./check {pid} --replay {{path}}",
            "engine": "vt",
            "level_claimed": {"category": "model_checking", "text": text, "design_ref": f"DESIGN.md section {ref}"},
            "level_note": TRUST,
            "technique": tech,
        })
    man = {
        "version": 1,
        "setup_cmd": "cd /verif && /venv/bin/python -m compileall -q vt >/dev/null && /venv/bin/python -c 'import clingo, ngo, sympy, networkx' && chmod +x check",
        "hooks": {
            "guard": "NGO_VERIF",
            "enable": "environment variable NGO_VERIF=1 (set by ./check for itself and its workers); /venv has ngo installed editable from /repo/src so checks run /repo's working tree",
            "baseline_off_cmd": "cd /repo && env -u NGO_VERIF /venv/bin/python -m pytest -ra -q -p no:cacheprovider --timeout=900 --continue-on-collection-errors",
            "source_commits": HOOK_COMMITS,
            "add_only": True,
        },
        "engines": [{"name": "vt", "path": "/verif/vt", "serves_properties": sorted(CHECKS),
                     "kind_free_text": "hand-written bounded-exhaustive explorer of the real Python code (program "
                                       "grammars x configurations x all instances x all answer sets; traced rewrite "
                                       "paths), clingo as reference model"}],
        "checks": checks,
        "notes": "see DESIGN.md; known findings in KNOWN_FINDINGS.txt",
        "not_applicable": [{"property_id": p, "reason": "check not built yet in this round (planned, see DESIGN.md section 8); not claimed"}
                           for p in ALL if p not in CHECKS],
    }
    with open(os.path.join(HERE, "MANIFEST.json"), "w", encoding="utf8") as f:
        json.dump(man, f, indent=1)
    # validate
    import jsonschema  # noqa
    schema = json.load(open("/root/.vp/MANIFEST.schema.json"))
    jsonschema.validate(man, schema)
    print("MANIFEST.json valid,", len(checks), "checks")


if __name__ == "__main__":
    main()
