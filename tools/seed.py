#!/venv/bin/python
"""seeded-change bookkeeping.
  seed.py verify <name> <worktree> <property>   confirm tests green + demo fails with / passes without; store under seeded/<name>
  seed.py detect <name> <check> [<check> ..]    apply seeded/<name>/patch.diff to /repo, run ./check <check> (quick), undo
"""
import json
import os
import shutil
import subprocess
import sys
import time

VERIF = os.path.dirname(os.path.dirname(os.path.abspath(__file__)))


def sh(cmd, cwd=None, env=None, timeout=3600):
    p = subprocess.run(cmd, shell=True, cwd=cwd, env=env, capture_output=True, text=True, timeout=timeout)
    return p.returncode, (p.stdout + p.stderr)


def verify(name, wt, prop):
    env = dict(os.environ, PYTHONPATH=f"{wt}/src")
    env.pop("NGO_VERIF", None)
    rc, out = sh(f"git diff -- src > /tmp/_seed_patch_{name}.diff; git status --short", cwd=wt)
    patch = open(f"/tmp/_seed_patch_{name}.diff").read()
    assert patch.strip(), "no change in worktree"
    rc_t, out_t = sh("/venv/bin/python -m pytest -q -p no:cacheprovider -x 2>&1 | tail -3", cwd=wt, env=env)
    tests_ok = " passed" in out_t and "failed" not in out_t
    rc_with, out_with = sh("/venv/bin/python demo.py", cwd=wt, env=env)
    sh(f"git apply -R /tmp/_seed_patch_{name}.diff", cwd=wt)
    rc_without, out_without = sh("/venv/bin/python demo.py", cwd=wt, env=env)
    sh(f"git apply /tmp/_seed_patch_{name}.diff", cwd=wt)
    ok = tests_ok and rc_with != 0 and rc_without == 0
    print(f"{name}: tests_ok={tests_ok} demo_with={rc_with} demo_without={rc_without} -> {'KEEP' if ok else 'REJECT'}")
    print(out_t.strip()[-200:])
    if not ok:
        print(out_with[-500:], out_without[-500:])
        return 1
    d = os.path.join(VERIF, "seeded", name)
    os.makedirs(d, exist_ok=True)
    shutil.copy(f"/tmp/_seed_patch_{name}.diff", os.path.join(d, "patch.diff"))
    shutil.copy(os.path.join(wt, "demo.py"), os.path.join(d, "demo.py"))
    meta = {"property": prop, "needs": "", "ran": {
        "tests_with_change": out_t.strip().splitlines()[-1] if out_t.strip() else "",
        "demo_with_change_exit": rc_with, "demo_without_change_exit": rc_without,
        "demo_output_with_change": out_with[-600:]}, "detected_by": {}}
    mp = os.path.join(d, "meta.json")
    if os.path.exists(mp):
        old = json.load(open(mp))
        meta["needs"] = old.get("needs", "")
        meta["detected_by"] = old.get("detected_by", {})
    json.dump(meta, open(mp, "w"), indent=1)
    return 0


def detect(name, checks, tier="quick"):
    d = os.path.join(VERIF, "seeded", name)
    rc, out = sh("git status --short", cwd="/repo")
    assert not out.strip(), "/repo not clean: " + out
    rc, out = sh(f"git apply {d}/patch.diff", cwd="/repo")
    assert rc == 0, out
    res = {}
    saved = {}
    for chk in checks:  # evidence files must describe the unchanged tree: put them back afterwards
        ev = os.path.join(VERIF, "evidence", f"{chk}.json")
        saved[ev] = open(ev).read() if os.path.exists(ev) else None
    try:
        for chk in checks:
            t0 = time.time()
            rc, out = sh(f"./check {chk} --tier {tier}", cwd=VERIF)
            viol = [l for l in out.splitlines() if l.startswith("VIOLATION")]
            res[chk] = {"exit": rc, "violation_lines": len(viol), "wall_s": round(time.time() - t0)}
            print(f"{name} {chk}: exit={rc} violations={len(viol)} wall={res[chk]['wall_s']}s")
            for l in out.splitlines():
                if l.startswith("VIOLATION") or l.startswith("  kind") or l.startswith("  program"):
                    print("   ", l[:220])
                    if l.startswith("  program"):
                        break
    finally:
        sh("git checkout -- .", cwd="/repo")
        for ev, text in saved.items():
            if text is None:
                if os.path.exists(ev):
                    os.remove(ev)
            else:
                open(ev, "w").write(text)
    mp = os.path.join(d, "meta.json")
    meta = json.load(open(mp))
    meta.setdefault("detected_by", {}).update({f"{k}/{tier}": v for k, v in res.items()})
    json.dump(meta, open(mp, "w"), indent=1)
    # restore evidence of the unchanged tree is the caller's business (re-run the check)


if __name__ == "__main__":
    if sys.argv[1] == "verify":
        sys.exit(verify(sys.argv[2], sys.argv[3], sys.argv[4]))
    elif sys.argv[1] == "detect":
        tier = "quick"
        args = sys.argv[3:]
        if "--thorough" in args:
            tier = "thorough"
            args.remove("--thorough")
        detect(sys.argv[2], args, tier)
